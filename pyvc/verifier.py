"""pyvc Engine: containers, heap, builtins, loops-with-invariants, path enumeration, obligation discharge."""
from __future__ import annotations

import ast
import importlib
import inspect
import itertools
import time
import types
import typing
import collections
import enum
import builtins as _bi

import z3

from .values import *  # noqa
from .engine import (Ctx, Frame, Closure, LoopSpec, It, Unsupported, PathEnd, ReturnSignal, BreakSignal,
                     ContinueSignal, RaiseSignal, MUTATORS, PendingOb, _src_ast)
from .interp import Interp, BoundMethod, zbool, znot, zand, zor, floor_div
from . import smt

_creation = itertools.count(1)


def stamp(o):
    try:
        o._pyvc_serial = next(_creation)
    except Exception:
        pass
    return o


class Env:
    """Read/write access to the locals of a frame for contract code (invariants, havoc, post)."""

    def __init__(self, fr: Frame):
        self.fr = fr

    def __getitem__(self, name):
        return self.fr.lookup(name)

    def get(self, name, default=None):
        try:
            return self.fr.lookup(name)
        except Unsupported:
            return default

    def has(self, name):
        try:
            self.fr.lookup(name)
            return True
        except Unsupported:
            return False

    def set(self, name, v):
        f = self.fr
        while f is not None:
            if name in f.locals:
                f.locals[name] = v
                return
            f = f.parent
        self.fr.locals[name] = v


class Contract:
    """Base class of sidecar contracts. Subclasses set `target` and override setup/post."""

    target: str = ""
    loops: dict = {}
    fields: dict = {}
    callees: dict = {}
    var_kinds: dict = {}
    raises_only: tuple = ()
    inline_ok: tuple = ()
    max_paths = 400

    def setup(self, ctx, I):
        raise NotImplementedError

    def post(self, ctx, I, outcome, st):
        pass


class Engine:
    def __init__(self):
        self._ast_cache = {}
        self._ord_cache = {}
        self.eq_handlers = {}
        self.setattr_hooks = {}
        self.contract: Contract | None = None
        self._pow2 = z3.Function("pow2", z3.IntSort(), z3.IntSort())

    # ---- sources ------------------------------------------------------------------------------
    def fn_ast(self, fn):
        if fn not in self._ast_cache:
            node = _src_ast(fn)
            if not isinstance(node, (ast.FunctionDef,)):
                raise Unsupported(f"source of {fn} is not a def")
            self._ast_cache[fn] = node
            self._index_loops(node, fn.__qualname__)
        return self._ast_cache[fn]

    def _index_loops(self, node, qual):
        table = {}
        counter = itertools.count()

        def walk(n):
            for ch in ast.iter_child_nodes(n):
                if isinstance(ch, (ast.FunctionDef, ast.AsyncFunctionDef)):
                    self._index_loops(ch, qual + ".<locals>." + ch.name)
                    continue
                if isinstance(ch, ast.Lambda):
                    continue
                if isinstance(ch, (ast.For, ast.While)):
                    table[(ch.lineno, ch.col_offset)] = next(counter)
                walk(ch)

        walk(node)
        self._ord_cache[qual] = table

    def loop_ordinals(self, qual):
        return self._ord_cache[qual]

    def eval_default(self, fn, dnode):
        return eval(compile(ast.Expression(dnode), "<default>", "eval"), fn.__globals__)

    # ---- contract lookups -----------------------------------------------------------------------
    def callee_for(self, fn):
        return self.contract.callees.get(fn) if self.contract else None

    def field_kind(self, cls, attr):
        if not isinstance(cls, type):
            return self.contract.fields.get((cls, attr))
        for k in inspect.getmro(cls):
            if (k, attr) in self.contract.fields:
                return self.contract.fields[(k, attr)]
        return None

    # ---- heap (fields of symbolic references) -----------------------------------------------------
    def _heap(self, ctx, attr, kind):
        h = ctx.ghost.setdefault("__heap__", {})
        if attr not in h:
            h[attr] = z3.Array(fresh_name("H_" + attr), z3.IntSort(), kind.sort)
        return h

    def heap_read(self, ctx, ref, attr, kind):
        if callable(kind) and not isinstance(kind, Kind):
            return kind(ctx, ref)
        h = self._heap(ctx, attr, kind)
        return wrap(kind, z3.Select(h[attr], ref.term))

    def heap_write(self, ctx, ref, attr, kind, v):
        h = self._heap(ctx, attr, kind)
        h[attr] = z3.Store(h[attr], ref.term, unwrap(v))
        ctx.ghost.setdefault("__heap_written__", set()).add(attr)

    def pow2(self, e):
        return self._pow2(e)

    def bitor(self, a, b):
        if not hasattr(self, "_bitor"):
            self._bitor = z3.Function("bitor", z3.IntSort(), z3.IntSort(), z3.IntSort())
        return self._bitor(a, b)

    # ---- construction ---------------------------------------------------------------------------
    def construct(self, I, cls, args, kwargs, node):
        c = self.contract
        if cls in c.callees:
            return c.callees[cls](I, list(args), kwargs)
        if isinstance(cls, type) and issubclass(cls, BaseException):
            return stamp(SObj(cls))
        if cls in (list, tuple, set, dict, int, str, bool, len, range, collections.OrderedDict, collections.defaultdict,
                   frozenset, bytes, enumerate, zip, reversed, type, super):
            return self.builtin(I, cls, args, kwargs, node)
        if cls.__module__ and (cls.__module__.startswith("pyteal") or cls.__module__.startswith("feature_gates")):
            obj = stamp(SObj(cls))
            init = None
            for k in inspect.getmro(cls):
                if "__init__" in k.__dict__:
                    init = k.__dict__["__init__"]
                    break
            if init is not None and isinstance(init, types.FunctionType):
                h = self.callee_for(init)
                if h is not None:
                    h(I, [obj] + list(args), kwargs)
                else:
                    I.call_function(init, [obj] + list(args), kwargs)
            return obj
        if I.all_concrete(list(args) + list(kwargs.values())):
            return cls(*args, **kwargs)
        raise Unsupported(f"construction of {cls}")

    # ---- containers ------------------------------------------------------------------------------
    def as_len(self, v):
        if isinstance(v, (SList, SListView)):
            return v.length
        if isinstance(v, SSet):
            return v.card
        if hasattr(v, "pyvc_len"):
            return v.pyvc_len()
        if is_z3(v) and v.sort() == z3.StringSort():
            return z3.Length(v)
        return len(v)

    def index(self, I, obj, idx, node=None, for_aug=False):
        ctx = I.ctx
        if isinstance(obj, (SList, SListView)):
            if isinstance(idx, int) and idx < 0:
                idx = obj.length + idx
            oob = zor(idx < 0, idx >= obj.length)
            if ctx.branch(oob):
                raise RaiseSignal(IndexError, node)
            return obj.get(idx)
        if isinstance(obj, SDict):
            k = unwrap(idx)
            has = z3.Select(obj.has, k)
            if getattr(obj, "default", None) is not None:
                return z3.If(has, z3.Select(obj.val, k), obj.default) if obj.vkind.name != "ref" else wrap(obj.vkind, z3.Select(obj.val, k))
            if not ctx.branch(has):
                raise RaiseSignal(KeyError, node)
            return wrap(obj.vkind, z3.Select(obj.val, k))
        if hasattr(obj, "pyvc_index"):
            return obj.pyvc_index(I, idx, node)
        if isinstance(obj, SRef):
            h = self.contract.callees.get(("getitem", obj.cls))
            if h:
                return h(I, obj, idx)
        if isinstance(obj, (list, tuple)):
            if is_z3(idx):
                # symbolic index into a concrete list: case split
                for j in range(len(obj)):
                    if ctx.branch(idx == j):
                        return obj[j]
                if ctx.branch(zand(idx < 0, idx >= -len(obj))):
                    raise Unsupported("negative symbolic index")
                raise RaiseSignal(IndexError, node)
            try:
                return obj[idx]
            except IndexError:
                raise RaiseSignal(IndexError, node)
        if isinstance(obj, dict):
            if is_sym(idx) or isinstance(idx, SObj):
                for k2, v2 in obj.items():
                    if ctx.branch(zbool(I.equals(k2, idx))):
                        return v2
                raise RaiseSignal(KeyError, node)
            try:
                return obj[idx]
            except KeyError:
                raise RaiseSignal(KeyError, node)
        if is_z3(obj) and obj.sort() == z3.StringSort():
            return z3.SubString(obj, unwrap(idx), 1)
        if I.all_concrete([obj, idx]):
            return obj[idx]
        raise Unsupported(f"subscript on {obj!r}")

    def store_index(self, I, obj, idx, v):
        ctx = I.ctx
        if isinstance(obj, SList):
            if obj.frozen:
                raise Unsupported("mutation of a frozen list")
            if ctx.branch(zor(idx < 0, idx >= obj.length)):
                raise RaiseSignal(IndexError, None)
            obj.arr = z3.Store(obj.arr, idx, unwrap(v))
            ctx.note_mut(obj)
            return
        if isinstance(obj, SDict):
            k = unwrap(idx)
            obj.has = z3.Store(obj.has, k, z3.BoolVal(True))
            obj.val = z3.Store(obj.val, k, unwrap(v))
            ctx.note_mut(obj)
            if hasattr(obj, "on_store"):
                obj.on_store(I, idx, v)
            return
        if hasattr(obj, "pyvc_store"):
            return obj.pyvc_store(I, idx, v)
        if isinstance(obj, list):
            if is_z3(idx):
                raise Unsupported("symbolic store into concrete list")
            obj[idx] = v
            ctx.note_mut(obj)
            return
        if isinstance(obj, dict):
            if is_sym(idx):
                raise Unsupported("symbolic key into concrete dict")
            obj[idx] = v
            ctx.note_mut(obj)
            return
        raise Unsupported(f"subscript store on {obj!r}")

    def slice(self, I, obj, lo, hi, st):
        if isinstance(obj, (SList, SListView)):
            n = obj.length
            if st is None or st == 1:
                lo = 0 if lo is None else lo
                if is_z3(lo):
                    if I.ctx.branch(lo < 0):
                        raise Unsupported("slice with a possibly negative lower bound")
                elif lo < 0:
                    raise Unsupported("slice with negative lower bound")
                if hi is None:
                    ln = z3.If(n - lo >= 0, n - lo, 0)
                    return SListView(obj, lo, 1, ln)
                if is_z3(hi):
                    if I.ctx.branch(hi < 0):
                        raise Unsupported("slice with a possibly negative upper bound")
                elif hi < 0:
                    # xs[lo:-c] : the upper bound counts from the end
                    top = z3.If(n + hi >= 0, n + hi, 0)
                    ln = z3.If(top - lo >= 0, top - lo, 0)
                    return SListView(obj, lo, 1, ln)
                top = z3.If(hi <= n, hi, n)
                ln = z3.If(top - lo >= 0, top - lo, 0)
                return SListView(obj, lo, 1, ln)
            if st == -1 and lo is None and hi is None:
                return SListView(obj, n - 1, -1, n)
            raise Unsupported("slice step")
        if is_z3(obj) and obj.sort() == z3.StringSort():
            lo = 0 if lo is None else lo
            hi = z3.Length(obj) if hi is None else hi
            if (isinstance(lo, int) and lo < 0) or (isinstance(hi, int) and hi < 0) or st is not None:
                raise Unsupported("negative string slice")
            return z3.SubString(obj, unwrap(lo), unwrap(hi) - unwrap(lo))
        if I.all_concrete([obj, lo, hi, st]):
            return obj[slice(lo, hi, st)]
        raise Unsupported("slice")

    def contains(self, I, cont, x):
        if isinstance(cont, SSet):
            return cont.contains(unwrap(x))
        if isinstance(cont, SDict):
            return z3.Select(cont.has, unwrap(x))
        if hasattr(cont, "pyvc_contains"):
            return cont.pyvc_contains(I, x)
        if isinstance(cont, SRef):
            h = self.contract.callees.get(("contains", cont.cls))
            if h:
                return h(I, cont, x)
        if isinstance(cont, (list, tuple, set, frozenset, dict)):
            if is_sym(x) or isinstance(x, SObj) or not I.all_concrete(list(cont)):
                return zor(*[zbool(I.equals(y, x)) for y in cont])
            return x in cont
        if isinstance(cont, (SList, SListView)):
            j = z3.Int(fresh_name("j"))
            return z3.Exists([j], z3.And(j >= 0, j < cont.length, unwrap(cont.get(j)) == unwrap(x)))
        if is_z3(cont) and cont.sort() == z3.StringSort():
            return z3.Contains(cont, unwrap(x))
        if I.all_concrete([cont, x]):
            return x in cont
        raise Unsupported(f"`in` on {cont!r}")

    def set_binop(self, I, op, a, b):
        if isinstance(op, ast.BitOr):
            for x, y in ((a, b), (b, a)):
                if isinstance(x, SSet) and isinstance(y, (set, frozenset)) and len(y) == 0:
                    out = stamp(SSet(x.kind, member=x.member, name=x.name + "_u"))
                    out.card = x.card
                    return out
        raise Unsupported("set algebra")

    def list_concat(self, I, a, b):
        raise Unsupported("symbolic list concatenation")

    def inplace(self, I, op, cur, v):
        ctx = I.ctx
        if hasattr(cur, "pyvc_iadd") and isinstance(op, ast.Add):
            return cur.pyvc_iadd(I, v)
        if isinstance(cur, list) and isinstance(op, ast.Add):
            if isinstance(v, (list, tuple)):
                cur.extend(v)
                ctx.note_mut(cur)
                return cur
            raise Unsupported("list += symbolic")
        if isinstance(cur, SList) and isinstance(op, ast.Add):
            if isinstance(v, (list, tuple)):
                for x in v:
                    self.list_append(I, cur, x)
                return cur
            if isinstance(v, (SList, SListView)) and not cur.frozen:
                j = z3.Int(fresh_name("jc"))
                a, n = cur.arr, cur.length
                # concatenation: a fresh array defined pointwise (friendlier to the solvers than a lambda term)
                new = z3.Array(fresh_name(cur.name + "_cat"), z3.IntSort(), cur.kind.sort)
                ctx.assume(z3.ForAll([j], z3.Implies(z3.And(j >= 0, j < n), z3.Select(new, j) == z3.Select(a, j))))
                ctx.assume(z3.ForAll([j], z3.Implies(z3.And(j >= n, j < n + v.length), z3.Select(new, j) == unwrap(v.get(j - n)))))
                cur.arr = new
                cur.length = n + v.length
                ctx.note_mut(cur)
                return cur
            raise Unsupported("SList += symbolic")
        raise Unsupported("in-place op on container")

    def list_append(self, I, lst, x):
        if isinstance(lst, SList):
            if lst.frozen:
                raise Unsupported("mutation of a frozen list")
            lst.arr = z3.Store(lst.arr, lst.length, unwrap(x))
            lst.length = lst.length + 1
            I.ctx.note_mut(lst)
        else:
            lst.append(x)
            I.ctx.note_mut(lst)

    def builtin_method(self, I, recv, name, args, kwargs, node):
        ctx = I.ctx
        if hasattr(recv, "pyvc_method"):
            return recv.pyvc_method(I, name, args, kwargs, node)
        if isinstance(recv, (SList, list)) and name == "append":
            self.list_append(I, recv, args[0])
            return None
        if isinstance(recv, SList) and name == "pop" and not args:
            if ctx.branch(recv.length <= 0):
                raise RaiseSignal(IndexError, node)
            recv.length = recv.length - 1
            ctx.note_mut(recv)
            return recv.get(recv.length)
        if isinstance(recv, SList) and name == "pop" and len(args) == 1:
            i = args[0]
            if isinstance(i, int) and i < 0:
                i = recv.length + i
            if ctx.branch(zor(i < 0, i >= recv.length)):
                raise RaiseSignal(IndexError, node)
            out = recv.get(i)
            j = z3.Int(fresh_name("jp"))
            old = recv.arr
            recv.arr = z3.Lambda([j], z3.If(j < i, z3.Select(old, j), z3.Select(old, j + 1)))   # elements behind i move down by one
            recv.length = recv.length - 1
            ctx.note_mut(recv)
            return out
        if isinstance(recv, (SList, SListView)) and name == "index" and len(args) == 1:
            x = unwrap(args[0])
            j = z3.Int(fresh_name("j"))
            present = z3.Exists([j], z3.And(j >= 0, j < recv.length, unwrap(recv.get(j)) == x))
            if not ctx.branch(present):
                raise RaiseSignal(ValueError, node)
            idx = ctx.fresh_int("idx")
            ctx.assume(z3.And(idx >= 0, idx < recv.length, unwrap(recv.get(idx)) == x))
            ctx.assume(z3.ForAll([j], z3.Implies(z3.And(j >= 0, j < idx), unwrap(recv.get(j)) != x)))   # first occurrence
            return idx
        if isinstance(recv, SSet):
            if name == "add":
                t = unwrap(args[0])
                already = recv.contains(t)
                recv.card = z3.If(already, recv.card, recv.card + 1)
                recv.member = z3.Store(recv.member, t, z3.BoolVal(True))
                ctx.note_mut(recv)
                return None
            if name == "update" and len(args) == 1 and isinstance(args[0], SSet):
                # union: a fresh membership array, defined pointwise
                other = args[0]
                u = z3.Array(fresh_name(recv.name + "_u"), recv.kind.sort, z3.BoolSort())
                x = z3.Const(fresh_name("ux"), recv.kind.sort)
                ctx.assume(z3.ForAll([x], z3.Select(u, x) == z3.Or(z3.Select(recv.member, x), z3.Select(other.member, x))))
                recv.member = u
                recv.card = z3.Int(fresh_name(recv.name + "_card"))
                ctx.note_mut(recv)
                return None
        if isinstance(recv, SDict):
            if name == "get":
                k = unwrap(args[0])
                d = args[1] if len(args) > 1 else None
                return z3.If(z3.Select(recv.has, k), z3.Select(recv.val, k), unwrap(d))
        if isinstance(recv, (list, dict, set, tuple, str, bytes, int)) and not is_sym(recv):
            if I.all_concrete(list(args) + list(kwargs.values())):
                if name in MUTATORS:
                    ctx.note_mut(recv)
                return getattr(recv, name)(*args, **kwargs)
            if isinstance(recv, str) and name == "format":
                if recv.count("{}") == 1 and len(args) == 1 and is_z3(args[0]) and z3.is_int(args[0]) and "{" not in recv.replace("{}", ""):
                    pre, post = recv.split("{}")
                    return z3.Concat(z3.StringVal(pre), z3.IntToStr(args[0]), z3.StringVal(post)) if (pre or post) else z3.IntToStr(args[0])
                return "<formatted>"
            if isinstance(recv, list) and name in ("append", "extend", "insert"):
                ctx.note_mut(recv)
                return getattr(recv, name)(*args)
            if isinstance(recv, dict) and name in ("items", "keys", "values"):
                return list(getattr(recv, name)())
            if isinstance(recv, dict) and name == "get":
                k = args[0]
                for k2, v2 in recv.items():
                    if ctx.branch(zbool(I.equals(k2, k))):
                        return v2
                return args[1] if len(args) > 1 else None
            if isinstance(recv, set) and name == "add":
                recv.add(args[0])
                ctx.note_mut(recv)
                return None
        if is_z3(recv) and recv.sort() == z3.StringSort():
            if name == "startswith":
                return z3.PrefixOf(unwrap(args[0]), recv)
            if name == "endswith":
                return z3.SuffixOf(unwrap(args[0]), recv)
        raise Unsupported(f"method {name} on {type(recv).__name__}")

    def native_call(self, I, fn, args, kwargs):
        if I.all_concrete(list(args) + list(kwargs.values())):
            return fn(*args, **kwargs)
        raise Unsupported(f"native call of {getattr(fn, '__qualname__', fn)} with symbolic arguments")

    def builtin(self, I, fn, args, kwargs, node):
        ctx = I.ctx
        try:
            h = self.contract.callees.get(fn)
        except TypeError:
            h = None
        if h is not None and fn is not sorted:
            return h(I, list(args), kwargs)
        if fn is len:
            return self.as_len(args[0])
        if fn is isinstance:
            return self.isinstance(I, args[0], args[1])
        if fn is type and len(args) == 1:
            v = args[0]
            if isinstance(v, SObj):
                return v.cls
            if isinstance(v, SRef):
                return self.type_of_ref(I, v)
            if is_z3(v):
                return {"Int": int, "Bool": bool, "String": str}[str(v.sort())]
            return type(v)
        if fn is id:
            v = args[0]
            if isinstance(v, SRef):
                return v.term
            if isinstance(v, SObj):
                return self.obj_term(I, v)
            return id(v)
        if fn is range:
            return ("range",) + tuple(args)
        if fn is enumerate:
            return ("enumerate", args[0], args[1] if len(args) > 1 else kwargs.get("start", 0))
        if fn is zip:
            return ("zip",) + tuple(args)
        if fn is reversed:
            return self.slice(I, args[0], None, None, -1) if isinstance(args[0], (SList, SListView)) else list(reversed(args[0]))
        if fn is list:
            if not args:
                return []
            v = args[0]
            if isinstance(v, (list, tuple)):
                return list(v)
            if isinstance(v, (SList, SListView)):
                out = stamp(SList(v.kind, name="copy"))
                if isinstance(v, SList):
                    out.arr, out.length = v.arr, v.length
                    return out
            if hasattr(v, "pyvc_list"):
                return v.pyvc_list(I)
            if isinstance(v, SSet):
                # a duplicate-free enumeration of the set (every member occurs: ghost position function)
                n, get = self.symbolic_iter(I, v)
                seq = I.ctx.ghost["__set_enum__"][id(v)]
                out = stamp(SList(v.kind, arr=seq.arr, length=seq.length, name=v.name + "_list"))
                out.enum_of = v
                return out
            raise Unsupported("list() of symbolic iterable")
        if fn is tuple:
            return tuple(args[0]) if args else ()
        if fn is dict or fn is collections.OrderedDict:
            if args or kwargs:
                raise Unsupported("dict(...) with arguments")
            return {}
        if fn is collections.defaultdict:
            return {}  # a contract `var_kinds` entry must give the variable its symbolic kind
        if fn is set:
            if not args:
                return set()
            v = args[0]
            if isinstance(v, SSet):
                out = stamp(SSet(v.kind, member=v.member, name=v.name + "_copy"))
                out.card = v.card
                return out
            if hasattr(v, "pyvc_contains"):
                return v
            if isinstance(v, (list, tuple, set)):
                if I.all_concrete(list(v)):
                    return set(v)
            raise Unsupported("set() of symbolic iterable")
        if fn is abs:
            v = args[0]
            return z3.If(v >= 0, v, -v) if is_z3(v) else abs(v)
        if fn is int:
            v = args[0]
            if is_z3(v) and z3.is_bool(v):
                return z3.If(v, 1, 0)
            if is_z3(v) and z3.is_int(v):
                return v
            if isinstance(v, (int, bool)):
                return int(v)
            raise Unsupported("int() conversion")
        if fn is bool:
            return zbool(args[0])
        if fn is min or fn is max:
            vals = list(args[0]) if len(args) == 1 else list(args)
            out = vals[0]
            for v in vals[1:]:
                if is_z3(out) or is_z3(v):
                    out = z3.If((v < out) if fn is min else (v > out), v, out)
                else:
                    out = fn(out, v)
            return out
        if fn is any or fn is all:
            v = args[0]
            if isinstance(v, SymComp):
                return v.quantify(fn is all)
            if isinstance(v, (list, tuple)):
                bs = [zbool(x) for x in v]
                return zor(*bs) if fn is any else zand(*bs)
            if isinstance(v, tuple) and v and v[0] == "quant":
                pass
            raise Unsupported("any/all over symbolic iterable")
        if fn is sorted:
            h = self.contract.callees.get(sorted)
            if h:
                return h(I, list(args), kwargs)
            if I.all_concrete(list(args) + list(kwargs.values())):
                return sorted(*args, **kwargs)
            raise Unsupported("sorted on symbolic data without a contract")
        if fn is str:
            if I.all_concrete(args):
                return str(*args)
            return "<str>"
        if fn is print:
            return None
        if fn is super:
            raise Unsupported("super() outside attribute access")
        if fn is typing.cast:
            return args[1]
        if fn is getattr:
            try:
                return I.getattr(args[0], args[1])
            except Unsupported:
                if len(args) > 2:
                    return args[2]
                raise
        if I.all_concrete(list(args) + list(kwargs.values())):
            return fn(*args, **kwargs)
        raise Unsupported(f"builtin {fn} with symbolic arguments")

    def isinstance(self, I, v, cls):
        classes = cls if isinstance(cls, tuple) else (cls,)
        if isinstance(v, SObj):
            return any(isinstance(v.cls, type) and issubclass(v.cls, c) for c in classes)
        if isinstance(v, SRef):
            h = None
            for k in (inspect.getmro(v.cls) if isinstance(v.cls, type) else (v.cls,)):
                h = self.contract.callees.get(("isinstance", k))
                if h:
                    break
            if h:
                return h(I, v, classes)
            if isinstance(v.cls, type):
                if any(issubclass(v.cls, c) for c in classes):
                    return True
                if not any(issubclass(c, v.cls) for c in classes if isinstance(c, type)):
                    return False
            raise Unsupported(f"isinstance of abstract reference {v} against {classes}")
        if is_z3(v):
            py = {"Int": int, "Bool": bool, "String": str}.get(str(v.sort()))
            return any(py is not None and issubclass(py, c) for c in classes if isinstance(c, type))
        return isinstance(v, cls)

    def type_of_ref(self, I, v):
        h = self.contract.callees.get(("type", v.cls))
        if h:
            return h(I, v)
        raise Unsupported("type() of abstract reference")

    def obj_term(self, I, o: SObj):
        if "term" not in o.meta:
            o.meta["term"] = z3.Int(fresh_name("fresh_obj"))
        return o.meta["term"]

    def on_assign(self, I, target, v, fr, stmt):
        if isinstance(target, ast.Name):
            f = self.contract.var_kinds.get((fr.fn_name, target.id))
            if f is not None:
                return stamp(f(I.ctx, v))
        return v

    # ---- comprehensions ------------------------------------------------------------------------
    def comprehension(self, I, n, fr, kind):
        if len(n.generators) != 1:
            raise Unsupported("nested comprehension")
        g = n.generators[0]
        it = I.eval(g.iter, fr)
        seq = self.concrete_iter(I, it)
        if seq is None and not g.ifs and isinstance(g.target, ast.Name) and isinstance(n.elt, ast.Name) \
                and n.elt.id == g.target.id and kind in ("gen", "list"):
            return it  # identity comprehension over a symbolic iterable
        if seq is None and not g.ifs:
            try:
                length, getter = self.symbolic_iter(I, it)
                return SymComp(I, n, fr, g, length, getter)
            except Unsupported:
                pass
        if seq is None:
            h = self.contract.callees.get(("comprehension", n.lineno))
            if h:
                return h(I, n, fr, it)
            raise Unsupported(f"comprehension over symbolic iterable at line {n.lineno}")
        out = []
        sub = Frame(fr.fn_name, fr.globs, parent=fr)
        for x in seq:
            I.assign_target(g.target, x, sub)
            ok = True
            for c in g.ifs:
                if not I.ctx.branch(zbool(I.eval(c, sub))):
                    ok = False
                    break
            if ok:
                out.append(I.eval(n.elt, sub))
        if kind == "set":
            if I.all_concrete(out):
                return set(out)
            raise Unsupported("set comprehension with symbolic elements")
        return out

    def concrete_iter(self, I, it):
        """Return a python list of items if the iterable has concrete shape, else None."""
        if isinstance(it, (list, tuple)) and not (it and it[0] in ("range", "enumerate", "zip") and isinstance(it, tuple)):
            return list(it)
        if isinstance(it, tuple) and it and it[0] == "range":
            a = it[1:]
            if all(isinstance(x, int) for x in a):
                return list(range(*a))
            return None
        if isinstance(it, tuple) and it and it[0] == "enumerate":
            inner = self.concrete_iter(I, it[1])
            if inner is None or not isinstance(it[2], int):
                return None
            return [(i + it[2], x) for i, x in enumerate(inner)]
        if isinstance(it, tuple) and it and it[0] == "zip":
            inners = [self.concrete_iter(I, x) for x in it[1:]]
            if any(x is None for x in inners):
                return None
            return list(zip(*inners))
        if isinstance(it, (set, frozenset)):
            return sorted(it, key=repr)
        if isinstance(it, dict):
            return list(it)
        if isinstance(it, (str, bytes)):
            return list(it)
        return None

    def symbolic_iter(self, I, it):
        """(length, getter) for a symbolic iterable."""
        if isinstance(it, (SList, SListView)):
            return it.length, it.get
        if hasattr(it, "pyvc_iter"):
            return it.pyvc_iter(I)
        if isinstance(it, tuple) and it and it[0] == "range":
            a = it[1:]
            if len(a) == 1:
                n = a[0]
                return z3.If(n >= 0, n, 0), (lambda k: k)
            if len(a) == 2:
                lo, hi = a
                return z3.If(hi - lo >= 0, hi - lo, 0), (lambda k: lo + k)
            raise Unsupported("range with step")
        if isinstance(it, tuple) and it and it[0] == "enumerate":
            n, g = self.symbolic_iter(I, it[1]) if self.concrete_iter(I, it[1]) is None else (None, None)
            if n is None:
                raise Unsupported("enumerate")
            st = it[2]
            return n, (lambda k: (k + st, g(k)))
        if isinstance(it, tuple) and it and it[0] == "zip":
            raise Unsupported("zip over symbolic")
        if isinstance(it, SSet):
            seq = stamp(SList(it.kind, name=it.name + "_enum"))
            I.ctx.assume(seq.length == it.card)
            I.ctx.assume(seq.length >= 0)
            j, k2 = z3.Ints(fresh_name("j") + " " + fresh_name("k"))
            I.ctx.assume(z3.ForAll([j], z3.Implies(z3.And(j >= 0, j < seq.length), z3.Select(it.member, z3.Select(seq.arr, j)))))
            I.ctx.assume(z3.ForAll([j, k2], z3.Implies(z3.And(0 <= j, j < k2, k2 < seq.length),
                                                      z3.Select(seq.arr, j) != z3.Select(seq.arr, k2))))
            # every member occurs in the enumeration (ghost position function)
            posf = z3.Function(fresh_name("enumPos"), it.kind.sort, z3.IntSort())
            m = z3.Const(fresh_name("m"), it.kind.sort)
            I.ctx.assume(z3.ForAll([m], z3.Implies(z3.Select(it.member, m), z3.And(posf(m) >= 0, posf(m) < seq.length, z3.Select(seq.arr, posf(m)) == m))))
            I.ctx.ghost.setdefault("__set_enum__", {})[id(it)] = seq
            I.ctx.ghost.setdefault("__set_pos__", {})[id(it)] = posf
            return seq.length, seq.get
        raise Unsupported(f"iteration over {it!r}")

    # ---- loops --------------------------------------------------------------------------------------
    def assigned_names(self, I, body, fr):
        names, mutated = set(), set()
        seen_closures = set()

        def scan(nodes, top):
            for n in nodes:
                for x in ast.walk(n):
                    if isinstance(x, ast.Name) and isinstance(x.ctx, ast.Store) and top:
                        names.add(x.id)
                    if isinstance(x, (ast.AugAssign,)) and isinstance(x.target, ast.Name):
                        (names if top else mutated).add(x.target.id)
                        mutated.add(x.target.id)
                    if isinstance(x, ast.Call) and isinstance(x.func, ast.Attribute) and isinstance(x.func.value, ast.Name) \
                            and x.func.attr in MUTATORS:
                        mutated.add(x.func.value.id)
                    if isinstance(x, (ast.Assign, ast.AugAssign)):
                        ts = x.targets if isinstance(x, ast.Assign) else [x.target]
                        for t in ts:
                            if isinstance(t, ast.Subscript) and isinstance(t.value, ast.Name):
                                mutated.add(t.value.id)
                    if isinstance(x, ast.Call) and isinstance(x.func, ast.Name):
                        try:
                            c = fr.lookup(x.func.id)
                        except Unsupported:
                            c = None
                        if isinstance(c, Closure) and id(c) not in seen_closures and not isinstance(c.node, ast.Lambda):
                            seen_closures.add(id(c))
                            scan(c.node.body, False)

        scan(body, True)
        return names, mutated

    def havoc_value(self, ctx, name, v):
        if isinstance(v, bool) or (is_z3(v) and z3.is_bool(v)):
            return ctx.fresh_bool(name)
        if isinstance(v, int) or (is_z3(v) and z3.is_int(v)):
            return ctx.fresh_int(name)
        if is_z3(v) and v.sort() == z3.StringSort():
            return z3.String(fresh_name(name))
        if isinstance(v, SRef):
            return ctx.fresh_ref(v.cls, name)
        return None

    def havoc_container(self, ctx, v):
        if isinstance(v, SList):
            v.arr = z3.Array(fresh_name(v.name), z3.IntSort(), v.kind.sort)
            v.length = z3.Int(fresh_name(v.name + "_len"))
            ctx.assume(v.length >= 0)
            return True
        if isinstance(v, SSet):
            v.member = z3.Array(fresh_name(v.name), v.kind.sort, z3.BoolSort())
            v.card = z3.Int(fresh_name(v.name + "_card"))
            ctx.assume(v.card >= 0)
            return True
        if isinstance(v, SDict):
            v.has = z3.Array(fresh_name(v.name + "_has"), v.kkind.sort, z3.BoolSort())
            v.val = z3.Array(fresh_name(v.name + "_val"), v.kkind.sort, v.vkind.sort)
            return True
        if hasattr(v, "pyvc_havoc"):
            v.pyvc_havoc(ctx)
            return True
        return False

    def run_loop(self, I, s, fr, kind):
        ctx = I.ctx
        k = I.loop_ordinal(s, fr)
        spec: LoopSpec = self.contract.loops.get((fr.fn_name, k))
        length = getter = None
        if kind == "for":
            itv = I.eval(s.iter, fr)
            conc = self.concrete_iter(I, itv)
            if conc is not None and spec is None:
                for x in conc:
                    I.assign_target(s.target, x, fr)
                    try:
                        I.exec_block(s.body, fr)
                    except ContinueSignal:
                        continue
                    except BreakSignal:
                        break
                return
            if conc is not None:
                lst = conc
                length, getter = len(lst), None
                raise Unsupported("loop spec on a concrete iterable")
            length, getter = self.symbolic_iter(I, itv)
        if spec is None:
            if kind == "while":
                # bounded concrete unrolling only if the condition is concrete
                n = 0
                while True:
                    c = zbool(I.eval(s.test, fr))
                    if not isinstance(c, bool):
                        c2 = z3.simplify(c)
                        if z3.is_true(c2):
                            c = True
                        elif z3.is_false(c2):
                            c = False
                        else:
                            raise Unsupported(f"while loop {k} of {fr.fn_name} has no invariant")
                    if not c:
                        return
                    n += 1
                    if n > 64:
                        raise Unsupported("concrete while unrolling bound")
                    try:
                        I.exec_block(s.body, fr)
                    except ContinueSignal:
                        continue
                    except BreakSignal:
                        return
            raise Unsupported(f"loop {k} of {fr.fn_name} (line {s.lineno}) has no invariant")

        tag = f"{fr.fn_name.split('.')[-1]}/loop{k}"
        env = Env(fr)
        it = It(k=0 if kind == "for" else None)
        it.n = length
        it.get = getter
        it.phase = "init"
        for name, f in spec.inv(ctx, env, it):
            ctx.oblige(f"{tag}/{name}/init", f, line=s.lineno)

        # ---- havoc -----------------------------------------------------------------------------
        names, mutated = self.assigned_names(I, s.body, fr)
        mutated |= set(m for m in spec.modifies if not m.startswith("heap:"))
        havocked_ids = set()
        start_serial = next(_creation)
        pre_py = set()
        f_ = fr
        while f_ is not None:
            for v_ in f_.locals.values():
                if isinstance(v_, (list, dict, set)):
                    pre_py.add(id(v_))
            f_ = f_.parent
        for nm in sorted(names | mutated):
            try:
                cur = fr.lookup(nm)
            except Unsupported:
                if nm in names:
                    continue
                raise
            if nm in mutated and self.havoc_container(ctx, cur):
                havocked_ids.add(id(cur))
                continue
            if nm in names:
                nv = self.havoc_value(ctx, nm, cur)
                if nv is not None:
                    env.set(nm, nv)
                elif nm in fr.locals and not self.havoc_container(ctx, cur):
                    # not havocable generically: the contract's havoc() must rebind it, checked below
                    fr.locals[nm] = _Unhavocked(nm, cur)
                else:
                    havocked_ids.add(id(cur))
        heap = ctx.ghost.get("__heap__", {})
        for a in [m[5:] for m in spec.modifies if m.startswith("heap:")]:
            if a in heap:
                heap[a] = z3.Array(fresh_name("H_" + a), z3.IntSort(), heap[a].sort().range())
        heap_before = dict(heap)
        it.phase = "iter"
        if kind == "for":
            kk = ctx.fresh_int("k")
            ctx.assume(zand(kk >= 0, kk <= length))
            it.k = kk
        if spec.havoc:
            spec.havoc(ctx, env, it)
        for nm, v in list(fr.locals.items()):
            if isinstance(v, _Unhavocked):
                if nm in names and self._only_first_assigned_in_body(s.body, nm):
                    del fr.locals[nm]
                else:
                    raise Unsupported(f"loop {tag}: variable {nm} ({type(v.old).__name__}) needs a custom havoc")
        for name, f in spec.inv(ctx, env, it):
            ctx.assume(f)
        if not ctx.feasible():
            raise Unsupported(f"{tag}: invariant is unsatisfiable after havoc (vacuity guard)")

        cond = (it.k < length) if kind == "for" else zbool(I.eval(s.test, fr))
        if ctx.branch(cond):
            variant0 = spec.decreases(ctx, env, it) if spec.decreases else None
            ctx.track_mut, ctx.mutated, ctx.mut_objs = True, set(), {}
            broke = False
            continued = False
            try:
                if kind == "for":
                    I.assign_target(s.target, getter(it.k), fr)
                I.exec_block(s.body, fr)
            except ContinueSignal:
                continued = True
            except BreakSignal:
                broke = True
            finally:
                ctx.track_mut = False
            for oid, o in ctx.mut_objs.items():
                if isinstance(o, (list, dict, set)) and oid not in pre_py:
                    continue  # a python container created inside this iteration
                if oid not in havocked_ids and getattr(o, "_pyvc_serial", 0) < start_serial \
                        and not getattr(o, "pyvc_mut_ok", False):
                    raise Unsupported(f"{tag}: body mutates {o!r}, which the loop havoc did not cover")
            heap = ctx.ghost.get("__heap__", {})
            for a, arr in heap.items():
                if a in heap_before and heap_before[a] is not arr and ("heap:" + a) not in spec.modifies:
                    raise Unsupported(f"{tag}: body writes heap field {a} not listed in modifies")
            if spec.ghost_step:
                spec.ghost_step(ctx, env, it, "continue" if continued else broke)   # ghost update (witness for existential clauses); may not touch program state
            if broke:
                return
            if kind == "for":
                it.k = it.k + 1
            it.phase = "preserved"
            for name, f in spec.inv(ctx, env, it):
                ctx.oblige(f"{tag}/{name}/preserved", f, line=s.lineno)
            if spec.decreases:
                v1 = spec.decreases(ctx, env, it)
                ctx.oblige(f"{tag}/decreases", z3.And(variant0 >= 0, v1 < variant0), line=s.lineno)
            raise PathEnd()
        # loop exit: continue after the loop with inv and not cond
        return

    @staticmethod
    def _only_first_assigned_in_body(body, nm):
        return True

    # ---- verification driver ----------------------------------------------------------------------
    def resolve(self, qualname):
        parts = qualname.split(".")
        for i in range(len(parts), 0, -1):
            try:
                mod = importlib.import_module(".".join(parts[:i]))
            except ImportError:
                continue
            obj = mod
            owner = None
            for p in parts[i:]:
                owner = obj
                obj = obj.__dict__[p] if isinstance(obj, type) and p in obj.__dict__ else getattr(obj, p)
            if isinstance(obj, (classmethod, staticmethod)):
                obj = obj.__func__
            return obj, owner
        raise Unsupported(f"cannot resolve {qualname}")

    def verify(self, contract: Contract, report=None):
        """Explore all paths; return (pending obligations, path outcomes, stats)."""
        self.contract = contract
        fn, owner = self.resolve(contract.target)
        node = self.fn_ast(fn)
        prefix: list[int] = []
        all_obs: list[PendingOb] = []
        outcomes = []
        npaths = 0
        pruned = 0
        while True:
            ctx = Ctx(self, prefix)
            I = Interp(self, ctx, contract)
            ctx.ghost["I"] = I
            outcome = None
            try:
                st = contract.setup(ctx, I)
                args, kwargs = st["args"], st.get("kwargs", {})
                try:
                    res = I.call_function(fn, args, kwargs)
                    outcome = ("return", res)
                except RaiseSignal as r:
                    outcome = ("raise", r.exc_cls, getattr(r.node, "lineno", 0))
                except (PathEnd, Unsupported, ReturnSignal, BreakSignal, ContinueSignal):
                    raise
                except (TypeError, AttributeError, KeyError, IndexError, ValueError) as ex:
                    # the interpreter met code it has no model for (e.g. an operation on a ghost value): outside the subset, not a verdict
                    raise Unsupported(f"the code leaves the modelled subset: {type(ex).__name__}: {str(ex)[:160]}")
                if outcome[0] == "raise":
                    allowed = contract.raises_only
                    cls = outcome[1]
                    ok = isinstance(cls, type) and any(issubclass(cls, a) for a in allowed)
                    if not ok:
                        ctx.oblige(f"no-{getattr(cls, '__name__', cls)}@{outcome[2]}", False,
                                   detail=f"path raising {getattr(cls, '__name__', cls)} at line {outcome[2]} must be infeasible",
                                   line=outcome[2])
                contract.post(ctx, I, outcome, st)
            except PathEnd:
                pass
            npaths += 1
            pruned += ctx.pruned
            for o in ctx.obs:
                o.path = npaths
            all_obs.extend(ctx.obs)
            outcomes.append(outcome)
            # backtrack
            dec = ctx.decisions
            while dec and dec[-1][0] + 1 >= dec[-1][1]:
                dec.pop()
            if not dec:
                break
            c, n = dec.pop()
            prefix = [d[0] for d in dec] + [c + 1]
            if npaths > contract.max_paths:
                raise Unsupported(f"path bound {contract.max_paths} exceeded for {contract.target}")
        return fn, node, all_obs, outcomes, {"paths": npaths, "pruned": pruned}


class SymComp:
    """`elt for x in <symbolic iterable>` - only meaningful under any()/all(): becomes a quantifier. The element expression
    must evaluate without forking (a fork inside a quantifier is unsupported)."""

    def __init__(self, I, node, fr, gen, length, getter):
        self.I, self.node, self.fr, self.gen, self.length, self.getter = I, node, fr, gen, length, getter

    def quantify(self, universal):
        I = self.I
        j = z3.Int(fresh_name("q"))
        sub = Frame(self.fr.fn_name, self.fr.globs, parent=self.fr)
        I.assign_target(self.gen.target, self.getter(j), sub)
        before = len(I.ctx.decisions)
        body = zbool(I.eval(self.node.elt, sub))
        if len(I.ctx.decisions) != before:
            raise Unsupported("comprehension element forks inside any()/all()")
        if isinstance(body, bool):
            body = z3.BoolVal(body)
        rng = z3.And(j >= 0, j < self.length)
        return z3.ForAll([j], z3.Implies(rng, body)) if universal else z3.Exists([j], z3.And(rng, body))


class _Unhavocked:
    def __init__(self, name, old):
        self.name, self.old = name, old


def discharge(obs: list[PendingOb], timeout_ms=None):
    """Group pending obligations by name; each (name, path) instance is one SMT query."""
    results = []
    for o in obs:
        goal = o.goal
        if z3.is_true(z3.simplify(goal)):
            results.append((o, "discharged", None, "simplify", 0.0))
            continue
        st, m, be, ms = smt.prove(o.hyps, goal, timeout_ms)
        results.append((o, st, m, be, ms))
    return results
