"""Value domain of the pyvc symbolic executor.

Python-side values:
  * any concrete Python object (ints, strs, enum members, real classes/functions, None, tuples, lists of values)
  * z3 terms of sort Int / Bool / String (symbolic primitives)
  * SRef   - symbolic reference (Int-coded) to a pre-existing or frozen object; fields live in heap maps
  * SObj   - object allocated during the execution (Python-side identity, fields in a dict)
  * SList  - symbolic-length list: z3 array + z3 length, mutable in place (identity = aliasing)
  * SSet / SDict - symbolic set / dict (membership + value arrays)
"""
from __future__ import annotations

import itertools
import z3

_fresh = itertools.count()


def fresh_name(base):
    return f"{base}!{next(_fresh)}"


def is_z3(v):
    return isinstance(v, z3.ExprRef)


def is_sym(v):
    return isinstance(v, (z3.ExprRef, SRef, SList, SSet, SDict))


NONE_REF = -1  # Int code of None in reference-sorted positions


class Kind:
    """Element / field kinds: how a z3 term is wrapped into a Python-side value."""

    def __init__(self, name, sort, cls=None, inner=None):
        self.name, self.sort, self.cls, self.inner = name, sort, cls, inner

    def __repr__(self):
        return f"Kind({self.name}{',' + self.cls.__name__ if self.cls else ''})"


INT = Kind("int", z3.IntSort())
BOOL = Kind("bool", z3.BoolSort())
STR = Kind("str", z3.StringSort())


def REF(cls, optional=False):
    k = Kind("ref", z3.IntSort(), cls=cls)
    k.optional = optional
    return k


class SRef:
    """Symbolic reference; `term` is an Int. None is encoded as -1 when the kind is optional."""

    __slots__ = ("term", "cls", "tag")

    def __init__(self, term, cls, tag=None):
        self.term = term if is_z3(term) else z3.IntVal(term)
        self.cls = cls
        self.tag = tag

    def __repr__(self):
        return f"SRef<{getattr(self.cls, '__name__', self.cls)}>({self.term})"


class SObj:
    """Object allocated during symbolic execution. Identity is Python identity."""

    _serial = itertools.count()

    def __init__(self, cls, fields=None):
        self.cls = cls
        self.fields = dict(fields or {})
        self.serial = next(SObj._serial)
        self.meta = {}

    def __repr__(self):
        return f"SObj<{getattr(self.cls, '__name__', self.cls)}#{self.serial}>"


class SList:
    def __init__(self, kind: Kind, arr=None, length=None, name="l"):
        self.kind = kind
        self.arr = arr if arr is not None else z3.Array(fresh_name(name), z3.IntSort(), kind.sort)
        self.length = length if length is not None else z3.Int(fresh_name(name + "_len"))
        self.frozen = False
        self.name = name

    def wrap(self, term):
        return wrap(self.kind, term)

    def get(self, i):
        return self.wrap(z3.Select(self.arr, i))

    def snapshot(self):
        return (self.arr, self.length)

    def __repr__(self):
        return f"SList<{self.kind}>({self.name})"


class SListView:
    """Read-only view xs[start::step] of an SList (used for slices and reversed())."""

    def __init__(self, base, start, step, length):
        self.base, self.start, self.step, self.length = base, start, step, length
        self.kind = base.kind

    def get(self, i):
        return self.base.get(self.start + i * self.step)


class SSet:
    def __init__(self, kind: Kind, member=None, name="s"):
        self.kind = kind
        self.member = member if member is not None else z3.Array(fresh_name(name), kind.sort, z3.BoolSort())
        self.card = z3.Int(fresh_name(name + "_card"))
        self.name = name

    def contains(self, t):
        return z3.Select(self.member, t)


class SDict:
    def __init__(self, kkind: Kind, vkind: Kind, name="d"):
        self.kkind, self.vkind = kkind, vkind
        self.has = z3.Array(fresh_name(name + "_has"), kkind.sort, z3.BoolSort())
        self.val = z3.Array(fresh_name(name + "_val"), kkind.sort, vkind.sort)
        self.name = name


def wrap(kind: Kind, term):
    if kind.name == "ref":
        return SRef(term, kind.cls)
    return term


def unwrap(v):
    """Python-side value -> z3 term (for storing into arrays / comparing)."""
    if isinstance(v, SRef):
        return v.term
    if is_z3(v):
        return v
    if isinstance(v, bool):
        return z3.BoolVal(v)
    if isinstance(v, int):
        return z3.IntVal(v)
    if isinstance(v, str):
        return z3.StringVal(v)
    if v is None:
        return z3.IntVal(NONE_REF)
    raise TypeError(f"cannot unwrap {v!r}")
