"""AST interpreter of pyvc (expressions, statements, calls, loops with invariants)."""
from __future__ import annotations

import ast
import inspect
import types
import enum
import typing
import builtins as _bi

import z3

from .values import *  # noqa
from .engine import (Ctx, Frame, Closure, LoopSpec, It, Unsupported, PathEnd, ReturnSignal, BreakSignal,
                     ContinueSignal, RaiseSignal, MUTATORS, _src_ast)


class SymRepeat:
    """unit * count for a concrete bytes / str unit and a symbolic count (count <= 0 gives the empty string, as in Python)"""

    def __init__(self, unit, count):
        self.unit, self.count = unit, count


class SuperProxy:
    def __init__(self, obj, after):
        self.obj, self.after = obj, after


class BoundMethod:
    def __init__(self, recv, fn, name):
        self.recv, self.fn, self.name = recv, fn, name


def zbool(v):
    """Python truthiness of a value as z3 Bool or python bool."""
    if isinstance(v, bool):
        return v
    if is_z3(v):
        if z3.is_bool(v):
            return v
        if z3.is_int(v):
            return v != 0
        if v.sort() == z3.StringSort():
            return z3.Length(v) != 0
        raise Unsupported(f"truthiness of sort {v.sort()}")
    if isinstance(v, SRef):
        return v.term != NONE_REF
    if isinstance(v, (SList, SListView)):
        return v.length != 0
    if isinstance(v, SSet):
        return v.card != 0
    if isinstance(v, SObj):
        return True
    if hasattr(v, "pyvc_bool"):
        return v.pyvc_bool()
    return bool(v)


def znot(b):
    return (not b) if isinstance(b, bool) else z3.Not(b)


def zand(*bs):
    out = []
    for b in bs:
        if b is False:
            return False
        if b is True:
            continue
        out.append(b)
    if not out:
        return True
    return out[0] if len(out) == 1 else z3.And(*out)


def zor(*bs):
    out = []
    for b in bs:
        if b is True:
            return True
        if b is False:
            continue
        out.append(b)
    if not out:
        return False
    return out[0] if len(out) == 1 else z3.Or(*out)


def floor_div(a, b):
    if isinstance(b, int) and b > 0:
        return a / b if is_z3(a) else a // b
    return z3.If(b > 0, a / b, (-a) / (-b))


class Interp:
    def __init__(self, engine, ctx: Ctx, contract):
        self.engine, self.ctx, self.contract = engine, ctx, contract
        self.depth = 0

    # =============================== expressions =========================================
    def eval(self, node, fr: Frame):
        m = getattr(self, "e_" + type(node).__name__, None)
        if m is None:
            raise Unsupported(f"expression {type(node).__name__} at line {getattr(node, 'lineno', '?')}")
        return m(node, fr)

    def e_Constant(self, n, fr):
        return n.value

    def e_Name(self, n, fr):
        return fr.lookup(n.id)

    def e_JoinedStr(self, n, fr):
        return "<fstring>"

    def e_Tuple(self, n, fr):
        return tuple(self.eval_elts(n.elts, fr))

    def e_List(self, n, fr):
        return list(self.eval_elts(n.elts, fr))

    def eval_elts(self, elts, fr):
        out = []
        for e in elts:
            if isinstance(e, ast.Starred):
                v = self.eval(e.value, fr)
                if hasattr(v, "pyvc_star"):
                    v = v.pyvc_star()
                if isinstance(v, (SList, SListView)) or type(v).__name__ == "SymComp":
                    out.append(_StarArgs(v))     # a symbolic sequence spliced into a call: the callee contract sees the marker
                    continue
                if not isinstance(v, (list, tuple)):
                    raise Unsupported("starred symbolic sequence")
                out.extend(v)
            else:
                out.append(self.eval(e, fr))
        return out

    def e_Set(self, n, fr):
        raise Unsupported("set literal")

    def e_Dict(self, n, fr):
        if n.keys:
            raise Unsupported("non-empty dict literal")
        return {}

    def e_Lambda(self, n, fr):
        return Closure(n, fr, fr.fn_name + ".<lambda>")

    def e_IfExp(self, n, fr):
        c = zbool(self.eval(n.test, fr))
        if self.ctx.branch(c):
            return self.eval(n.body, fr)
        return self.eval(n.orelse, fr)

    def e_NamedExpr(self, n, fr):
        v = self.eval(n.value, fr)
        fr.assign(n.target.id, v)
        return v

    def e_BoolOp(self, n, fr):
        # short-circuit with forking, value semantics (returns the deciding operand)
        is_and = isinstance(n.op, ast.And)
        v = None
        for i, e in enumerate(n.values):
            v = self.eval(e, fr)
            if i == len(n.values) - 1:
                return v
            t = self.ctx.branch(zbool(v))
            if is_and and not t:
                return v
            if (not is_and) and t:
                return v
        return v

    def e_UnaryOp(self, n, fr):
        v = self.eval(n.operand, fr)
        if isinstance(n.op, ast.Not):
            return znot(zbool(v))
        if isinstance(n.op, ast.USub):
            return -v
        if isinstance(n.op, ast.UAdd):
            return v
        raise Unsupported("unary op")

    def e_BinOp(self, n, fr):
        a, b = self.eval(n.left, fr), self.eval(n.right, fr)
        return self.binop(n.op, a, b, n)

    def binop(self, op, a, b, n=None):
        sym = is_z3(a) or is_z3(b)
        if not sym and not isinstance(a, (SList, SListView, SSet, SObj, SRef)) and not isinstance(b, (SList, SListView, SSet, SObj, SRef)):
            import operator as O
            tbl = {ast.Add: O.add, ast.Sub: O.sub, ast.Mult: O.mul, ast.FloorDiv: O.floordiv, ast.Mod: O.mod,
                   ast.LShift: O.lshift, ast.RShift: O.rshift, ast.BitAnd: O.and_, ast.BitOr: O.or_, ast.Pow: O.pow,
                   ast.BitXor: O.xor, ast.Div: O.truediv}
            if isinstance(a, list) and isinstance(b, list) and isinstance(op, ast.Add):
                return list(a) + list(b)
            if type(op) in tbl:
                return tbl[type(op)](a, b)
            raise Unsupported("binop")
        if isinstance(a, SSet) or isinstance(b, SSet):
            return self.engine.set_binop(self, op, a, b)
        if isinstance(a, (SObj, SRef)) and isinstance(a.cls, type):
            # operator overloading on the left operand's class: only through a callee contract of the dunder method
            dunder = {ast.Add: "__add__", ast.Sub: "__sub__", ast.Mult: "__mul__", ast.FloorDiv: "__floordiv__", ast.Mod: "__mod__"}.get(type(op))
            for k in inspect.getmro(a.cls) if dunder else ():
                if dunder in k.__dict__:
                    h = self.engine.contract.callees.get(k.__dict__[dunder])
                    if h is not None:
                        return h(self, [a, b], {})
                    break
            raise Unsupported(f"arithmetic operator on an object without a callee contract for {dunder}")
        if isinstance(a, (SList, SListView)) and isinstance(op, ast.Add):
            return self.engine.list_concat(self, a, b)
        if isinstance(op, ast.Add):
            if (is_z3(a) and a.sort() == z3.StringSort()) or (is_z3(b) and b.sort() == z3.StringSort()):
                return z3.Concat(unwrap(a), unwrap(b))
            return a + b
        if isinstance(op, ast.Sub):
            return a - b
        if isinstance(op, ast.Mult):
            if isinstance(a, (bytes, str)) and is_z3(b):
                return SymRepeat(a, b)     # b"\x00" * n with symbolic n: only a callee contract can consume it
            return a * b
        if isinstance(op, ast.FloorDiv):
            if not (isinstance(b, int) and b > 0):
                if self.ctx.branch(b == 0):
                    raise RaiseSignal(ZeroDivisionError, n)
            return floor_div(a, b)
        if isinstance(op, ast.Mod):
            if isinstance(a, str):
                raise Unsupported("str % formatting")
            if not (isinstance(b, int) and b > 0):
                if self.ctx.branch(b == 0):
                    raise RaiseSignal(ZeroDivisionError, n)
            return a - b * floor_div(a, b)
        if isinstance(op, ast.LShift) and isinstance(b, int) and b >= 0:
            return a * (2 ** b)
        if isinstance(op, ast.LShift) and is_z3(b):
            if self.ctx.branch(b < 0):
                raise RaiseSignal(ValueError, n)
            return a * self.engine.pow2(b)   # pow2 is uninterpreted: contracts supply the unfoldings they need
        if isinstance(op, ast.RShift) and isinstance(b, int) and b >= 0:
            return floor_div(a, 2 ** b)
        if isinstance(op, ast.BitAnd):
            if isinstance(a, int):
                a, b = b, a
            if isinstance(b, int) and b >= 0 and (b & (b + 1)) == 0:  # mask 2^k-1: holds for all ints
                return a - (b + 1) * floor_div(a, b + 1)
            if isinstance(b, int) and b > 0 and (b & (b - 1)) == 0:  # single bit
                q = floor_div(a, b)
                return (q - 2 * floor_div(q, 2)) * b
        if isinstance(op, ast.BitOr):
            if isinstance(a, int):
                a, b = b, a
            if isinstance(b, int) and b > 0 and (b & (b - 1)) == 0:
                q = floor_div(a, b)
                bit = q - 2 * floor_div(q, 2)
                return a + (1 - bit) * b
            if isinstance(b, int) and b == 0:
                return a
            if is_z3(a) and is_z3(b):
                # a | b == a + b whenever the operands occupy disjoint bit ranges (true for all Python ints, negative `hi` included);
                # outside those cases the result is left uninterpreted
                out = self.engine.bitor(a, b)
                for k in (8, 5, 1):
                    for hi, lo in ((a, b), (b, a)):
                        out = z3.If(z3.And(hi % (2 ** k) == 0, lo >= 0, lo < 2 ** k), hi + lo, out)
                out = z3.If(b == 0, a, z3.If(a == 0, b, out))
                return out
        if isinstance(op, ast.Pow) and isinstance(a, int) and a == 2 and is_z3(b):
            return self.engine.pow2(b)
        raise Unsupported(f"symbolic binop {type(op).__name__}")

    def e_Compare(self, n, fr):
        left = self.eval(n.left, fr)
        res = []
        for op, rn in zip(n.ops, n.comparators):
            right = self.eval(rn, fr)
            res.append(self.compare(op, left, right, n))
            left = right
        return zand(*res)

    def identity(self, a, b):
        """`a is b` as python bool / z3 Bool."""
        if isinstance(a, SRef) or isinstance(b, SRef):
            if isinstance(a, SObj) or isinstance(b, SObj):
                o = a if isinstance(a, SObj) else b
                r = b if o is a else a
                if "term" in o.meta:
                    return o.meta["term"] == r.term
                return False  # fresh objects are distinct from every pre-existing reference
            if a is None or b is None:
                r = a if isinstance(a, SRef) else b
                return r.term == NONE_REF
            if isinstance(a, SRef) and isinstance(b, SRef):
                return a.term == b.term
            return False
        if is_z3(a) or is_z3(b):
            if a is None or b is None:
                return False
            return unwrap(a) == unwrap(b)
        return a is b

    def compare(self, op, a, b, n=None):
        if isinstance(op, ast.Is):
            return self.identity(a, b)
        if isinstance(op, ast.IsNot):
            return znot(self.identity(a, b))
        if isinstance(op, (ast.In, ast.NotIn)):
            r = self.engine.contains(self, b, a)
            return r if isinstance(op, ast.In) else znot(r)
        if isinstance(op, (ast.Eq, ast.NotEq)):
            r = self.equals(a, b)
            return r if isinstance(op, ast.Eq) else znot(r)
        if isinstance(a, (SObj, SRef)) or isinstance(b, (SObj, SRef)):
            # operator overloading on the left operand's class: only through a callee contract of the dunder method
            dunder = {ast.Lt: "__lt__", ast.LtE: "__le__", ast.Gt: "__gt__", ast.GtE: "__ge__"}.get(type(op))
            if dunder and isinstance(a, (SObj, SRef)) and isinstance(a.cls, type):
                for k in inspect.getmro(a.cls):
                    if dunder in k.__dict__:
                        h = self.engine.contract.callees.get(k.__dict__[dunder])
                        if h is not None:
                            return h(self, [a, b], {})
                        break
            raise Unsupported("ordering on objects")
        if isinstance(op, ast.Lt):
            return a < b
        if isinstance(op, ast.LtE):
            return a <= b
        if isinstance(op, ast.Gt):
            return a > b
        if isinstance(op, ast.GtE):
            return a >= b
        raise Unsupported("compare op")

    def equals(self, a, b):
        for x, y in ((a, b), (b, a)):
            if isinstance(x, (SObj, SRef)):
                h = self.engine.eq_handlers.get(x.cls)
                if h is None:
                    for k in inspect.getmro(x.cls) if isinstance(x.cls, type) else ():
                        if k in self.engine.eq_handlers:
                            h = self.engine.eq_handlers[k]
                            break
                if h is not None:
                    return h(self, x, y)
                if isinstance(x.cls, type) and x.cls.__eq__ is object.__eq__:
                    return self.identity(a, b)
                raise Unsupported(f"== on {x.cls} without an eq handler")
        if is_z3(a) or is_z3(b):
            if a is None or b is None:
                return False
            try:
                ua, ub = unwrap(a), unwrap(b)
            except TypeError:
                return False
            if ua.sort() != ub.sort():
                return False
            return ua == ub
        if isinstance(a, (SList, SListView)) or isinstance(b, (SList, SListView)):
            raise Unsupported("== on symbolic lists")
        return a == b

    def mangle(self, attr, fr):
        """private name mangling inside a class body: __x -> _Cls__x"""
        if attr.startswith("__") and not attr.endswith("__"):
            f = fr
            while f is not None and "__fn__" not in f.locals:
                f = f.parent
            if f is not None:
                q = f.locals["__fn__"].__qualname__.split(".")
                if len(q) >= 2:
                    return "_" + q[-2].lstrip("_") + attr
        return attr

    def e_Attribute(self, n, fr):
        obj = self.eval(n.value, fr)
        return self.getattr(obj, self.mangle(n.attr, fr), n)

    def getattr(self, obj, attr, n=None):
        eng = self.engine
        if isinstance(obj, SObj):
            if attr in obj.fields:
                return obj.fields[attr]
            return self.class_attr(obj, obj.cls, attr)
        if isinstance(obj, SRef):
            key = eng.field_kind(obj.cls, attr)
            if key is not None:
                return eng.heap_read(self.ctx, obj, attr, key)
            try:
                return self.class_attr(obj, obj.cls, attr)
            except Unsupported:
                # flow-sensitive narrowing: the attribute exists on a declared subclass; the receiver must be one
                for sub in getattr(self.contract, "narrow", {}).get(obj.cls, ()):
                    if any(attr in k.__dict__ for k in inspect.getmro(sub)) or eng.field_kind(sub, attr) is not None:
                        cond = eng.isinstance(self, obj, sub)
                        self.ctx.oblige(f"narrowing/{sub.__name__}.{attr}", cond if is_z3(cond) else z3.BoolVal(bool(cond)),
                                        detail=f"receiver of .{attr} is a {sub.__name__} on this path")
                        narrowed = SRef(obj.term, sub)
                        k2 = eng.field_kind(sub, attr)
                        if k2 is not None:
                            return eng.heap_read(self.ctx, narrowed, attr, k2)
                        return self.class_attr(narrowed, sub, attr)
                raise
        if isinstance(obj, SuperProxy):
            return self.class_attr(obj.obj, obj.obj.cls, attr, mro=obj.after)
        if isinstance(obj, (SList, SListView, SSet, SDict)) or is_z3(obj) or hasattr(obj, "pyvc_method"):
            return BoundMethod(obj, None, attr)
        if isinstance(obj, (list, dict, set, tuple, str, bytes, int)):
            return BoundMethod(obj, None, attr)
        cells = getattr(eng, "class_cells", None)
        if cells and isinstance(obj, type) and (obj, attr) in cells:
            return cells[(obj, attr)].value
        try:
            return getattr(obj, attr)
        except AttributeError:
            raise Unsupported(f"attribute {attr} of {obj!r}")

    def make_super(self, fr):
        f = fr
        while f is not None and "__fn__" not in f.locals:
            f = f.parent
        if f is None:
            raise Unsupported("super() outside a method")
        obj, fn = f.locals["__self__"], f.locals["__fn__"]
        cls = obj.cls if isinstance(obj, (SObj, SRef)) else type(obj)
        mro = inspect.getmro(cls)
        for i, k in enumerate(mro):
            if any(v is fn for v in k.__dict__.values()):
                return SuperProxy(obj, mro[i + 1:])
        raise Unsupported("super(): defining class not found")

    def class_attr(self, obj, cls, attr, mro=None):
        if not isinstance(cls, type):
            raise Unsupported(f"attribute {attr} on abstract class {cls}")
        for k in (mro if mro is not None else inspect.getmro(cls)):
            if attr in k.__dict__:
                v = k.__dict__[attr]
                if isinstance(v, property):
                    return self.call_function(v.fget, [obj], {})
                if isinstance(v, (staticmethod,)):
                    return v.__func__
                if isinstance(v, classmethod):
                    return BoundMethod(cls, v.__func__, attr)
                if isinstance(v, types.FunctionType):
                    return BoundMethod(obj, v, attr)
                return v
        raise Unsupported(f"{cls.__name__} has no attribute {attr} (field not declared in contract?)")

    def e_Subscript(self, n, fr):
        obj = self.eval(n.value, fr)
        if isinstance(n.slice, ast.Slice):
            lo = self.eval(n.slice.lower, fr) if n.slice.lower else None
            hi = self.eval(n.slice.upper, fr) if n.slice.upper else None
            st = self.eval(n.slice.step, fr) if n.slice.step else None
            return self.engine.slice(self, obj, lo, hi, st)
        idx = self.eval(n.slice, fr)
        return self.engine.index(self, obj, idx, n)

    def e_Call(self, n, fr):
        # cast(T, x) is the identity; do not evaluate T
        if isinstance(n.func, ast.Name) and n.func.id == "cast" and len(n.args) == 2:
            return self.eval(n.args[1], fr)
        if isinstance(n.func, ast.Name) and n.func.id == "super" and not n.args:
            return self.make_super(fr)
        fn = self.eval(n.func, fr)
        args = self.eval_elts(n.args, fr)
        kwargs = {}
        for k in n.keywords:
            if k.arg is None:
                raise Unsupported("**kwargs")
            kwargs[k.arg] = self.eval(k.value, fr)
        return self.call(fn, args, kwargs, n, fr)

    def e_ListComp(self, n, fr):
        return self.engine.comprehension(self, n, fr, "list")

    def e_GeneratorExp(self, n, fr):
        return self.engine.comprehension(self, n, fr, "gen")

    def e_SetComp(self, n, fr):
        return self.engine.comprehension(self, n, fr, "set")

    # =============================== calls ================================================
    def call(self, fn, args, kwargs, node=None, fr=None):
        eng = self.engine
        if isinstance(fn, Closure):
            return self.call_closure(fn, args, kwargs)
        if isinstance(fn, BoundMethod):
            recv = fn.recv
            if fn.fn is None:
                return eng.builtin_method(self, recv, fn.name, args, kwargs, node)
            if isinstance(recv, type) :  # classmethod
                h = eng.callee_for(fn.fn)
                if h is not None:
                    return h(self, [recv] + list(args), kwargs)
                return self.call_function(fn.fn, [recv] + list(args), kwargs)
            h = eng.callee_for(fn.fn)
            if h is not None:
                return h(self, [recv] + list(args), kwargs)
            if isinstance(recv, SRef) and fn.fn not in self.contract.inline_ok:
                raise Unsupported(f"method {fn.name} on abstract reference {recv} has no callee contract "
                                  f"(dynamic dispatch unknown)")
            return self.call_function(fn.fn, [recv] + list(args), kwargs)
        if isinstance(fn, types.MethodType):
            # bound method of a concrete object
            h = eng.callee_for(fn.__func__)
            if h is not None:
                return h(self, [fn.__self__] + list(args), kwargs)
            if self.all_concrete([fn.__self__] + list(args) + list(kwargs.values())):
                return eng.native_call(self, fn, args, kwargs)
            return self.call_function(fn.__func__, [fn.__self__] + list(args), kwargs)
        if isinstance(fn, type):
            return eng.construct(self, fn, args, kwargs, node)
        if isinstance(fn, types.FunctionType):
            h = eng.callee_for(fn)
            if h is not None:
                return h(self, list(args), kwargs)
            if fn.__module__ and (fn.__module__.startswith("pyteal") or fn.__module__.startswith("feature_gates")):
                return self.call_function(fn, list(args), kwargs)
            return eng.native_call(self, fn, args, kwargs)
        if isinstance(fn, (types.BuiltinFunctionType, types.BuiltinMethodType)) or fn in (typing.cast,):
            return eng.builtin(self, fn, args, kwargs, node)
        if isinstance(fn, SObj) or isinstance(fn, SRef):
            raise Unsupported("calling an object")
        if callable(fn):
            return eng.builtin(self, fn, args, kwargs, node)
        raise Unsupported(f"call of {fn!r}")

    def all_concrete(self, vals):
        for v in vals:
            if is_sym(v) or isinstance(v, (SObj, Closure, SListView)):
                return False
            if isinstance(v, (list, tuple)) and not self.all_concrete(v):
                return False
        return True

    def bind_params(self, argsnode: ast.arguments, args, kwargs, fr, defaults_eval):
        params = [a.arg for a in argsnode.posonlyargs + argsnode.args]
        args = list(args)
        ndef = len(argsnode.defaults)
        for i, p in enumerate(params):
            if i < len(args):
                fr.locals[p] = args[i]
            elif p in kwargs:
                fr.locals[p] = kwargs.pop(p)
            else:
                di = i - (len(params) - ndef)
                if di < 0:
                    raise Unsupported(f"missing argument {p}")
                fr.locals[p] = defaults_eval(argsnode.defaults[di])
        extra = args[len(params):]
        if argsnode.vararg:
            fr.locals[argsnode.vararg.arg] = tuple(extra) if not (len(extra) == 1 and isinstance(extra[0], _StarArgs)) else extra[0].value
        elif extra:
            raise Unsupported("too many positional arguments")
        for a, d in zip(argsnode.kwonlyargs, argsnode.kw_defaults):
            if a.arg in kwargs:
                fr.locals[a.arg] = kwargs.pop(a.arg)
            elif d is not None:
                fr.locals[a.arg] = defaults_eval(d)
            else:
                raise Unsupported(f"missing kw argument {a.arg}")
        if kwargs:
            raise Unsupported(f"unexpected kwargs {list(kwargs)}")

    def call_closure(self, c: Closure, args, kwargs):
        fr = Frame(c.qualname, c.frame.globs, parent=c.frame)
        self.bind_params(c.node.args, args, dict(kwargs), fr, lambda d: self.eval(d, c.frame))
        if isinstance(c.node, ast.Lambda):
            return self.eval(c.node.body, fr)
        return self.run_body(c.node, fr)

    def call_function(self, fn, args, kwargs):
        """Inline a real function: fetch its source from the working tree and interpret it."""
        self.depth += 1
        if self.depth > 40:
            raise Unsupported("inlining depth (recursion without contract)")
        try:
            node = self.engine.fn_ast(fn)
            fr = Frame(fn.__qualname__, fn.__globals__)
            if fn.__closure__:
                for name, cell in zip(fn.__code__.co_freevars, fn.__closure__):
                    try:
                        fr.locals[name] = cell.cell_contents
                    except ValueError:
                        pass
            # __class__ cell for super()
            fr.locals["__fn__"] = fn
            self.bind_params(node.args, args, dict(kwargs), fr, lambda d: self.engine.eval_default(fn, d))
            if args:
                fr.locals["__self__"] = args[0]
            return self.run_body(node, fr)
        finally:
            self.depth -= 1

    def run_body(self, node, fr):
        try:
            self.exec_block(node.body, fr)
        except ReturnSignal as r:
            return r.value
        return None

    # =============================== statements ===========================================
    def exec_block(self, stmts, fr):
        for s in stmts:
            self.exec(s, fr)

    def exec(self, s, fr):
        cut = getattr(self.contract, "cut_before", None)
        if cut is not None and cut(s, fr):
            # region contract: the postcondition is stated at this program point (the rest of the function is outside the region)
            self.contract.at_cut(self.ctx, self, fr)
            raise PathEnd()
        m = getattr(self, "s_" + type(s).__name__, None)
        if m is None:
            raise Unsupported(f"statement {type(s).__name__} at line {s.lineno}")
        return m(s, fr)

    def s_Expr(self, s, fr):
        if isinstance(s.value, ast.Constant):
            return
        self.eval(s.value, fr)

    def s_Pass(self, s, fr):
        pass

    def s_Import(self, s, fr):
        import importlib
        for a in s.names:
            fr.locals[(a.asname or a.name).split(".")[0]] = importlib.import_module(a.name.split(".")[0] if not a.asname else a.name)

    def s_ImportFrom(self, s, fr):
        import importlib
        mod = importlib.import_module(s.module)
        for a in s.names:
            fr.locals[a.asname or a.name] = getattr(mod, a.name)

    def s_Nonlocal(self, s, fr):
        fr.locals.setdefault("__nonlocal__", set()).update(s.names)

    def s_Return(self, s, fr):
        raise ReturnSignal(self.eval(s.value, fr) if s.value else None)

    def s_Break(self, s, fr):
        raise BreakSignal()

    def s_Continue(self, s, fr):
        raise ContinueSignal()

    def s_Raise(self, s, fr):
        if s.exc is None:
            raise Unsupported("bare raise")
        e = s.exc
        if isinstance(e, ast.Call):
            cls = self.eval(e.func, fr)
        else:
            cls = self.eval(e, fr)
        if isinstance(cls, SObj):
            cls = cls.cls
        raise RaiseSignal(cls, s)

    def s_Assert(self, s, fr):
        c = zbool(self.eval(s.test, fr))
        if not self.ctx.branch(c):
            raise RaiseSignal(AssertionError, s)

    def s_If(self, s, fr):
        c = zbool(self.eval(s.test, fr))
        if self.ctx.branch(c):
            self.exec_block(s.body, fr)
        else:
            self.exec_block(s.orelse, fr)

    def s_Match(self, s, fr):
        """match with class patterns without sub-patterns, value patterns and the wildcard (the subset PyTeal uses for dispatch)"""
        subj = self.eval(s.subject, fr)
        for case in s.cases:
            if case.guard is not None:
                raise Unsupported("match guard")
            pat = case.pattern
            alts = pat.patterns if isinstance(pat, ast.MatchOr) else [pat]
            conds = []
            for p in alts:
                if isinstance(p, ast.MatchClass) and not p.patterns and not p.kwd_patterns:
                    conds.append(zbool(self.engine.isinstance(self, subj, self.eval(p.cls, fr))))
                elif isinstance(p, ast.MatchValue):
                    conds.append(zbool(self.equals(subj, self.eval(p.value, fr))))
                elif isinstance(p, ast.MatchAs) and p.pattern is None and p.name is None:
                    conds.append(True)
                else:
                    raise Unsupported(f"match pattern {type(p).__name__} at line {p.lineno}")
            if self.ctx.branch(zor(*conds)):
                self.exec_block(case.body, fr)
                return
        return

    def s_FunctionDef(self, s, fr):
        fr.locals[s.name] = Closure(s, fr, fr.fn_name + ".<locals>." + s.name)

    def s_AnnAssign(self, s, fr):
        if s.value is None:
            return
        v = self.eval(s.value, fr)
        v = self.engine.on_assign(self, s.target, v, fr, s)
        self.assign_target(s.target, v, fr)

    def s_Assign(self, s, fr):
        v = self.eval(s.value, fr)
        for t in s.targets:
            v2 = self.engine.on_assign(self, t, v, fr, s)
            self.assign_target(t, v2, fr)

    def s_AugAssign(self, s, fr):
        t = s.target
        if isinstance(t, ast.Name):
            cur = fr.lookup(t.id)
            if isinstance(cur, (SList, list, SSet, set)) or hasattr(cur, "pyvc_iadd"):
                new = self.engine.inplace(self, s.op, cur, self.eval(s.value, fr))
            else:
                new = self.binop(s.op, cur, self.eval(s.value, fr), s)
            fr.assign(t.id, new, fr.locals.get("__nonlocal__", ()))
            return
        if isinstance(t, ast.Subscript):
            obj = self.eval(t.value, fr)
            idx = self.eval(t.slice, fr)
            cur = self.engine.index(self, obj, idx, s, for_aug=True)
            new = self.binop(s.op, cur, self.eval(s.value, fr), s)
            self.engine.store_index(self, obj, idx, new)
            return
        if isinstance(t, ast.Attribute):
            obj = self.eval(t.value, fr)
            cur = self.getattr(obj, t.attr)
            if isinstance(cur, (SList, list, SSet, set)):
                new = self.engine.inplace(self, s.op, cur, self.eval(s.value, fr))
            else:
                new = self.binop(s.op, cur, self.eval(s.value, fr), s)
            self.setattr(obj, t.attr, new)
            return
        raise Unsupported("augassign target")

    def assign_target(self, t, v, fr):
        if isinstance(t, ast.Name):
            fr.assign(t.id, v, fr.locals.get("__nonlocal__", ()))
        elif isinstance(t, (ast.Tuple, ast.List)):
            if not isinstance(v, (tuple, list)):
                raise Unsupported("unpacking a symbolic value")
            star = [i for i, e in enumerate(t.elts) if isinstance(e, ast.Starred)]
            if star:
                raise Unsupported("starred unpacking")
            if len(v) != len(t.elts):
                raise RaiseSignal(ValueError, t)
            for e, x in zip(t.elts, v):
                self.assign_target(e, x, fr)
        elif isinstance(t, ast.Attribute):
            self.setattr(self.eval(t.value, fr), t.attr, v)
        elif isinstance(t, ast.Subscript):
            obj = self.eval(t.value, fr)
            idx = self.eval(t.slice, fr)
            self.engine.store_index(self, obj, idx, v)
        else:
            raise Unsupported("assignment target")

    def setattr(self, obj, attr, v):
        if isinstance(obj, SObj):
            obj.fields[attr] = v
            self.ctx.note_mut(obj)
            hook = self.engine.setattr_hooks.get(attr)
            if hook:
                hook(self, obj, attr, v)
            return
        if isinstance(obj, SRef):
            kind = self.engine.field_kind(obj.cls, attr)
            if kind is None:
                raise Unsupported(f"write to undeclared field {attr} of {obj.cls}")
            if callable(kind) and not hasattr(kind, "sort"):
                # a field whose reads are computed by the contract: writes go to the contract's write hook
                hook = getattr(self.engine.contract, "field_writes", {}).get((obj.cls, attr))
                if hook is None:
                    raise Unsupported(f"write to computed field {attr} of {obj.cls} without a write hook")
                hook(self, obj, v)
                return
            self.engine.heap_write(self.ctx, obj, attr, kind, v)
            return
        cells = getattr(self.engine, "class_cells", None)
        if cells and isinstance(obj, type) and (obj, attr) in cells:
            cells[(obj, attr)].value = v
            return
        raise Unsupported(f"attribute write on {obj!r}")

    def s_With(self, s, fr):
        raise Unsupported("with statement")

    def s_Try(self, s, fr):
        raise Unsupported("try statement")

    def s_Delete(self, s, fr):
        raise Unsupported("del")

    # ---- loops ------------------------------------------------------------------------------
    def loop_ordinal(self, s, fr):
        return self.engine.loop_ordinals(fr.fn_name)[(s.lineno, s.col_offset)]

    def s_While(self, s, fr):
        if s.orelse:
            raise Unsupported("while-else")
        self.engine.run_loop(self, s, fr, kind="while")

    def s_For(self, s, fr):
        if s.orelse:
            raise Unsupported("for-else")
        self.engine.run_loop(self, s, fr, kind="for")


class _StarArgs:
    def __init__(self, value):
        self.value = value
