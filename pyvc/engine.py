"""pyvc: symbolic executor of a Python subset over the *real* source of /repo functions.

One `verify(contract)` call explores every path of the contracted function (re-execution with a
decision prefix), cutting loops at contract-supplied invariants, replacing contracted callees by
their contracts, and collecting proof obligations which are discharged by pyvc.smt.
See DESIGN.md section 1 for the subset and what the encoding assumes.
"""
from __future__ import annotations

import ast
import inspect
import textwrap
import time
import types
import builtins as _bi
from dataclasses import dataclass, field
from typing import Any, Callable, Optional

import z3

from .values import *  # noqa
from . import smt


class Unsupported(Exception):
    """Construct outside the subset / contract-code structural mismatch: verdict undecided, never a violation."""


class PathEnd(Exception):
    """The current path ends here (after a loop-body check, or an assumption made the path infeasible)."""


class ReturnSignal(Exception):
    def __init__(self, value):
        self.value = value


class BreakSignal(Exception):
    pass


class ContinueSignal(Exception):
    pass


class RaiseSignal(Exception):
    def __init__(self, exc_cls, node=None, args=()):
        self.exc_cls, self.node, self.args = exc_cls, node, args


@dataclass
class PendingOb:
    name: str
    hyps: list
    goal: Any
    detail: str = ""
    line: int = 0
    path: int = 0


class Frame:
    def __init__(self, fn_name, globs, parent=None):
        self.fn_name = fn_name
        self.locals: dict[str, Any] = {}
        self.globs = globs
        self.parent = parent  # enclosing frame for nested defs (closure by reference)
        self.loop_ordinals: dict[int, int] = {}

    def lookup(self, name):
        f = self
        while f is not None:
            if name in f.locals:
                return f.locals[name]
            f = f.parent
        if name in self.globs:
            return self.globs[name]
        if hasattr(_bi, name):
            return getattr(_bi, name)
        raise Unsupported(f"unbound name {name}")

    def assign(self, name, value, nonlocal_names=()):
        if name in nonlocal_names:
            f = self.parent
            while f is not None:
                if name in f.locals:
                    f.locals[name] = value
                    return
                f = f.parent
        self.locals[name] = value


class Closure:
    """A nested def / lambda: evaluated by inlining its body in a child frame."""

    def __init__(self, node, frame, qualname):
        self.node, self.frame, self.qualname = node, frame, qualname


class LoopSpec:
    """Contract for one loop (k-th loop of the function in source order).

    inv(ctx, env, it)      -> list[(name, z3 Bool)]     the invariant clauses
    havoc(ctx, env, it)    -> None                       optional custom havoc (beyond the syntactic one)
    decreases(ctx, env,it) -> z3 Int                     optional variant (must be >= 0 and strictly decrease)
    modifies               -> extra names of containers mutated by the body (checked dynamically anyway)
    """

    def __init__(self, inv, havoc=None, decreases=None, modifies=(), ghost_step=None):
        self.inv, self.havoc, self.decreases, self.modifies = inv, havoc, decreases, tuple(modifies)
        self.ghost_step = ghost_step


class It:
    """Loop iteration handle given to invariants: k = number of completed iterations (for-loops)."""

    def __init__(self, k=None, seq=None):
        self.k, self.seq = k, seq


MUTATORS = {"append", "add", "pop", "update", "extend", "insert", "remove", "clear", "setdefault", "discard"}


def _src_ast(fn):
    src = textwrap.dedent(inspect.getsource(fn))
    tree = ast.parse(src)
    node = tree.body[0]
    _, first = inspect.getsourcelines(fn)
    ast.increment_lineno(node, first - 1)
    return node


def _has_quantifier(e, _seen=None):
    seen = set() if _seen is None else _seen
    stack = [e]
    while stack:
        x = stack.pop()
        i = x.get_id()
        if i in seen:
            continue
        seen.add(i)
        if z3.is_quantifier(x):
            return True
        if z3.is_app(x):
            stack.extend(x.children())
    return False


class Ctx:
    """One path of one function."""

    def __init__(self, engine, prefix):
        self.engine = engine
        self.prefix = list(prefix)
        self.decisions: list[tuple[int, int]] = []  # (chosen, n_alternatives)
        self.solver = z3.Solver()
        self.solver.set("timeout", 5000)
        self.pc: list = []
        self.obs: list[PendingOb] = []
        self.mutated: set[int] = set()
        self.mut_objs: dict[int, Any] = {}
        self.track_mut = False
        self.ghost: dict[str, Any] = {}
        self.alloc_serial = 0
        self.notes: list[str] = []
        self.pruned = 0

    # ---- path condition -------------------------------------------------------------------
    def assume(self, cond):
        if cond is True:
            return
        if cond is False:
            raise PathEnd()
        cond = z3.simplify(cond) if is_z3(cond) else cond
        if z3.is_false(cond):
            raise PathEnd()
        self.pc.append(cond)
        if not _has_quantifier(cond):
            self.solver.add(cond)  # feasibility pruning uses the quantifier-free part only (sound: prunes less)

    def feasible(self, cond=None):
        from .smt import guarded_check
        r = guarded_check(self.solver, 5000, *([cond] if cond is not None else []))
        return r != z3.unsat

    def choose(self, n, feas: Callable[[int], bool]):
        """Pick alternative index in [0,n) following the decision prefix; record for backtracking."""
        d = len(self.decisions)
        if d < len(self.prefix):
            c = self.prefix[d]
            self.decisions.append((c, n))
            return c
        for c in range(n):
            if feas(c):
                self.decisions.append((c, n))
                return c
            self.pruned += 1
        raise PathEnd()

    def branch(self, cond) -> bool:
        """Fork on a (possibly symbolic) boolean."""
        if isinstance(cond, bool):
            return cond
        if not is_z3(cond):
            return bool(cond)
        cond = z3.simplify(cond)
        if z3.is_true(cond):
            return True
        if z3.is_false(cond):
            return False
        conds = [cond, z3.Not(cond)]
        d = len(self.decisions)
        if d < len(self.prefix):
            c = self.prefix[d]
            # when replaying, an alternative may be infeasible: prune
            if not self.feasible(conds[c]):
                self.decisions.append((c, 2))
                self.pruned += 1
                raise PathEnd()
            self.decisions.append((c, 2))
        else:
            c = self.choose(2, lambda i: self.feasible(conds[i]))
        self.assume(conds[c])
        return c == 0

    # ---- obligations ------------------------------------------------------------------------
    def oblige(self, name, goal, detail="", line=0):
        if goal is True:
            goal = z3.BoolVal(True)
        if goal is False:
            goal = z3.BoolVal(False)
        self.obs.append(PendingOb(name, list(self.pc), goal, detail, line))

    def fresh_int(self, base="i"):
        return z3.Int(fresh_name(base))

    def fresh_bool(self, base="b"):
        return z3.Bool(fresh_name(base))

    def fresh_ref(self, cls, base="r"):
        return SRef(z3.Int(fresh_name(base)), cls)

    def note_mut(self, obj):
        if self.track_mut:
            self.mutated.add(id(obj))
            self.mut_objs[id(obj)] = obj
