"""Engine canaries: run once per check process before contracts are trusted.

  good contract   : every obligation must be discharged and every path-feasibility guard satisfiable
  wrong post      : `result == 2*n + 1` must be refuted (sat with a model), not discharged and not unknown
  wrong invariant : `total == 2*i + 1` must fail at loop entry
  vacuous pre     : a contradictory precondition must make the path-feasibility guard fail
A canary that does not behave is a checker crash (exit 3): nothing the engine says afterwards would mean anything.
"""
from __future__ import annotations

import z3

from pyvc.values import *  # noqa
from pyvc.engine import LoopSpec
from pyvc.verifier import Contract


class Good(Contract):
    target = "vf.canary_src.double_count"
    post_shift = 0
    inv_shift = 0
    contradictory = False

    def __init__(self):
        self.raises_only = (ValueError,)
        self.callees, self.fields, self.var_kinds = {}, {}, {}
        self.loops = {("double_count", 0): LoopSpec(inv=self.inv)}

    def setup(self, ctx, I):
        n, cap = z3.Int("n"), z3.Int("cap")
        if self.contradictory:
            ctx.assume(z3.And(n > 0, n < 0))
        ctx.ghost.update(n=n, cap=cap)
        return {"args": [n, cap]}

    def inv(self, ctx, env, it):
        return [("total-tracks-i", env["total"] == 2 * env["i"] + self.inv_shift), ("i-in-range", z3.And(env["i"] >= 0, env["i"] <= ctx.ghost["n"]))]

    def post(self, ctx, I, outcome, st):
        n, cap = ctx.ghost["n"], ctx.ghost["cap"]
        if outcome[0] == "raise":
            ctx.oblige("raises-only-on-negative", n < 0)
        else:
            ctx.oblige("result", outcome[1] == z3.If(2 * n > cap, cap, 2 * n + self.post_shift))


class WrongPost(Good):
    post_shift = 1


class WrongInv(Good):
    inv_shift = 1


class Vacuous(Good):
    contradictory = True


_done = False


def run():
    global _done
    if _done:
        return
    from .runner import _explore, _solve
    res = {}
    for cls in ("Good", "WrongPost", "WrongInv", "Vacuous"):
        out = _explore(("vf.canary", cls, "canary"))
        if out["error"] or out["unsupported"]:
            raise RuntimeError(f"engine canary {cls}: {out['error'] or out['unsupported']}")
        st = []
        for q in out["queries"]:
            if q.get("trivial"):
                st.append((q["name"], bool(q.get("vac")), "unsat"))
                continue
            st.append((q["name"], bool(q.get("vac")), _solve(q["smt2"])[0]))
        res[cls] = st
    real = lambda c: [(n, s) for n, vac, s in res[c] if not vac]
    vac = lambda c: [s for n, v, s in res[c] if v]
    if not real("Good") or any(s != "unsat" for _, s in real("Good")) or any(s != "sat" for s in vac("Good")):
        raise RuntimeError(f"engine canary: the correct contract is not fully discharged: {res['Good']}")
    if not any(s == "sat" and "result" in n for n, s in real("WrongPost")):
        raise RuntimeError(f"engine canary: a wrong postcondition is not refuted: {res['WrongPost']}")
    if not any(s == "sat" and "total-tracks-i" in n for n, s in real("WrongInv")):
        raise RuntimeError(f"engine canary: a wrong loop invariant is not refuted: {res['WrongInv']}")
    # a contradictory precondition: either the exploration prunes every path (zero obligations - run_contracts reports that as
    # undecided) or a path-feasibility guard is unsatisfiable; it must never look like a discharged contract
    if real("Vacuous") and not any(s == "unsat" for s in vac("Vacuous")):
        raise RuntimeError(f"engine canary: a contradictory precondition passes the vacuity guard: {res['Vacuous']}")
    _done = True
