"""Run pyvc contracts and record aggregated obligations in a Report.

Phase 1 (one process per contract): symbolic exploration of the real function -> pending obligations, each
serialised as an SMT-LIB query (hypotheses + negated goal).
Phase 2 (process pool over all queries): z3 5.1 in-process with a timeout; z3's `unknown`s go to the cvc5 CLI.
A query is `discharged` on unsat, `refuted` on sat, `unknown` otherwise.
"""
from __future__ import annotations

import hashlib
import importlib
import os
import subprocess
import tempfile
import time
import traceback
from concurrent.futures import ProcessPoolExecutor
from concurrent.futures.process import BrokenProcessPool

from .core import Ob, Report, REPO, use_repo

Z3_MS = int(os.environ.get("PYVC_Z3_TIMEOUT_MS", "25000"))   # real obligations take < 2 s on an idle machine; the margin is for a loaded one
CVC5_MS = int(os.environ.get("PYVC_CVC5_TIMEOUT_MS", "15000"))


def _explore(spec):
    mod, cls, oid = spec
    t0 = time.time()
    out = {"oid": oid, "contract": f"{mod}.{cls}", "queries": [], "error": None, "unsupported": None, "stats": {}}
    try:
        use_repo()
        import z3
        from pyvc.verifier import Engine
        from pyvc.engine import Unsupported
        C = getattr(importlib.import_module(mod), cls)
        try:
            c = C()      # contracts check the shape of the real source when they are built
        except Unsupported as e:
            out["unsupported"] = str(e)
            out["target"] = getattr(C, "target", f"{mod}.{cls}")
            return out
        eng = Engine()
        try:
            fn, node, obs, outcomes, stats = eng.verify(c)
        except Unsupported as e:
            out["unsupported"] = str(e)
            out["target"] = c.target
            return out
        out["target"] = c.target
        out["where"] = f"{os.path.relpath(fn.__code__.co_filename, REPO)}:{fn.__code__.co_firstlineno}"
        out["stats"] = stats
        seen_paths = set()
        for o in obs:
            goal = o.goal
            trivially = z3.is_true(z3.simplify(goal))
            s = z3.Solver()
            for h in o.hyps:
                s.add(h)
            q = {"name": o.name, "path": o.path, "detail": o.detail, "line": o.line, "trivial": trivially,
                 "goal": str(goal)[:500]}
            if not trivially:
                s.add(z3.Not(goal))
                q["smt2"] = s.to_smt2()
            out["queries"].append(q)
            if o.path not in seen_paths:
                # vacuity guard: the hypotheses of each path must be satisfiable
                seen_paths.add(o.path)
                s2 = z3.Solver()
                for h in o.hyps:
                    s2.add(h)
                out["queries"].append({"name": "__path_feasible__", "path": o.path, "detail": "", "line": 0,
                                       "trivial": False, "smt2": "; VACUITY-GUARD\n" + s2.to_smt2(), "goal": "hypotheses satisfiable", "vac": True})
        out["paths_outcomes"] = [o[0] if o else "cut" for o in outcomes]
    except Exception:
        out["error"] = traceback.format_exc()
    out["wall"] = time.time() - t0
    return out


def _solve(smt2):
    """Returns (status sat|unsat|unknown, info, backend, ms)."""
    import z3
    t0 = time.time()
    vac = smt2.startswith("; VACUITY-GUARD")
    try:
        s = z3.Solver()
        # a vacuity guard only matters when it comes back `unsat` (contradictory hypotheses): a short budget is enough, and an
        # inconclusive answer costs nothing but time
        s.set("timeout", 2500 if vac else Z3_MS)
        s.from_string(smt2)
        from pyvc.smt import guarded_check
        r = guarded_check(s, 2500 if vac else Z3_MS)
        ms = (time.time() - t0) * 1000
        if r == z3.unsat:
            return "unsat", None, "z3-" + z3.get_version_string(), ms
        if r == z3.sat:
            m = s.model()
            info = {}
            try:
                for d in m.decls()[:40]:
                    info[d.name()] = str(m[d])[:160]
            except Exception:
                pass
            return "sat", info, "z3-" + z3.get_version_string(), ms
        reason = s.reason_unknown()
    except Exception as e:
        reason = f"z3 error {e!r}"
    # cvc5 CLI on the same text (cannot parse z3 lambdas: then it stays unknown)
    try:
        if vac:
            raise RuntimeError("vacuity guard inconclusive within its budget")
        if "(lambda" in smt2:
            raise RuntimeError("query contains lambda terms (cvc5 1.0.3 CLI needs HO logic); skipped")
        with tempfile.NamedTemporaryFile("w", suffix=".smt2", delete=False) as f:
            f.write("(set-logic ALL)\n" + smt2 + "\n(check-sat)\n" if "(check-sat)" not in smt2 else "(set-logic ALL)\n" + smt2)
            path = f.name
        try:
            p = subprocess.run(["/usr/bin/cvc5", "--lang=smt2", f"--tlimit={CVC5_MS}", "--strings-exp", path],
                               capture_output=True, text=True, timeout=CVC5_MS / 1000 + 5)
            first = (p.stdout.strip().splitlines() or [""])[0].strip()
        finally:
            os.unlink(path)
        ms = (time.time() - t0) * 1000
        if first in ("sat", "unsat"):
            return first, ("cvc5 reports sat (no model extracted)" if first == "sat" else None), "cvc5-1.0.3-cli", ms
        return "unknown", f"z3: {reason}; cvc5: {first or p.stderr[:120]}", "z3+cvc5", ms
    except Exception as e:
        return "unknown", f"z3: {reason}; cvc5: {e}", "z3", (time.time() - t0) * 1000


def run_contracts(report: Report, specs, workers=16):
    """specs: list of (module, class_name, oid). Adds one Ob per (contract, obligation name)."""
    from . import canary
    canary.run()      # the engine must refute a wrong contract and discharge a right one before its verdicts are used
    serial = bool(os.environ.get("VERIF_SERIAL"))
    try:
        return _run_contracts(report, specs, workers, serial)
    except BrokenProcessPool:
        # a worker process was killed from outside (seen once in a fresh sandbox under memory pressure): nothing was decided, so
        # repeat the whole phase in this process, serially - slower, same obligations, same verdicts
        report.extra.setdefault("runner_notes", []).append("process pool broke; contracts re-run serially in-process")
        return _run_contracts(report, specs, workers, True)


def _run_contracts(report: Report, specs, workers, serial):
    pool = None if serial else ProcessPoolExecutor(max_workers=workers)
    try:
        explored = [_explore(s) for s in specs] if serial else list(pool.map(_explore, specs))
        # phase 2: solve all distinct queries
        texts = {}
        for r in explored:
            for q in r["queries"]:
                if not q["trivial"]:
                    h = hashlib.sha1(q["smt2"].encode()).hexdigest()
                    q["h"] = h
                    texts.setdefault(h, q["smt2"])
        keys = list(texts)
        sols = [_solve(texts[k]) for k in keys] if serial else list(pool.map(_solve, [texts[k] for k in keys], chunksize=2))
        sol = dict(zip(keys, sols))
    finally:
        if pool:
            pool.shutdown()
    for r in explored:
        fn = r.get("target", r["contract"])
        if r["error"]:
            report.ob(Ob(id=f"{r['oid']}/engine", function=fn, kind="P", status="error", detail="checker crash",
                         model=r["error"][-1500:]))
            continue
        if r["unsupported"]:
            report.ob(Ob(id=f"{r['oid']}/subset", function=fn, kind="P", status="unknown",
                         detail="contract/code structural mismatch or construct outside the pyvc subset: " + r["unsupported"]))
            continue
        vac_paths = set()
        for q in r["queries"]:
            if q.get("vac") and sol[q["h"]][0] == "unsat":
                vac_paths.add(q["path"])
        agg = {}
        for q in r["queries"]:
            if q.get("vac"):
                continue
            a = agg.setdefault(q["name"], {"instances": 0, "status": "discharged", "ms": 0.0, "backend": set(), "model": None,
                                           "detail": q["detail"], "vacuous": 0})
            a["instances"] += 1
            if q["trivial"]:
                a["backend"].add("simplify")
                continue
            st, info, be, ms = sol[q["h"]]
            a["ms"] += ms
            a["backend"].add(be)
            if st == "unsat":
                if q["path"] in vac_paths:
                    a["vacuous"] += 1
            elif st == "sat":
                a["status"] = "refuted"
                if a["model"] is None:
                    a["model"] = {"path": q["path"], "goal": q["goal"], "model": info}
            elif a["status"] == "discharged":
                a["status"] = "unknown"
                a["model"] = str(info)[:300]
        if not agg:
            report.ob(Ob(id=f"{r['oid']}/vacuity", function=fn, kind="P", status="unknown", detail="zero obligations generated"))
        for name, a in agg.items():
            if a["status"] == "discharged" and a["vacuous"] == a["instances"] and a["instances"] > 0 and "simplify" not in a["backend"]:
                a["status"] = "unknown"
                a["model"] = "vacuous: hypotheses unsatisfiable on every path reaching this obligation"
            report.ob(Ob(id=f"{r['oid']}/{name}", function=fn, kind="P", status=a["status"], backend="+".join(sorted(a["backend"])),
                         ms=a["ms"], where=r.get("where", ""),
                         detail=f"{a['detail'] or name} [{a['instances']} path instance(s)]", model=a["model"]))
        report.extra.setdefault("pyvc_stats", {})[r["oid"]] = {**r["stats"], "explore_wall_s": round(r.get("wall", 0), 2),
                                                               "queries": len(r["queries"])}
    return explored
