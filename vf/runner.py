"""Run pyvc contracts (in worker processes) and record aggregated obligations in a Report."""
from __future__ import annotations

import importlib
import os
import time
import traceback
from concurrent.futures import ProcessPoolExecutor, as_completed

from .core import Ob, Report, REPO, use_repo


def _verify_one(spec):
    """Worker: spec = (module, class_name, oid).  Returns a plain dict."""
    mod, cls, oid = spec
    t0 = time.time()
    out = {"oid": oid, "contract": f"{mod}.{cls}", "obs": [], "error": None, "unsupported": None, "stats": {}}
    try:
        use_repo()
        import z3
        from pyvc.verifier import Engine
        from pyvc.engine import Unsupported
        from pyvc import smt
        C = getattr(importlib.import_module(mod), cls)
        c = C()
        eng = Engine()
        try:
            fn, node, obs, outcomes, stats = eng.verify(c)
        except Unsupported as e:
            out["unsupported"] = str(e)
            return out
        out["target"] = c.target
        out["where"] = f"{os.path.relpath(fn.__code__.co_filename, REPO)}:{fn.__code__.co_firstlineno}"
        out["stats"] = stats
        # vacuity guard: hypotheses of every path must be satisfiable
        agg = {}
        seen_paths = {}
        for o in obs:
            key = o.name
            a = agg.setdefault(key, {"name": key, "instances": 0, "status": "discharged", "ms": 0.0, "backend": set(),
                                     "model": None, "detail": o.detail, "line": o.line, "vacuous": 0})
            a["instances"] += 1
            if o.path not in seen_paths:
                st, m, be, ms = smt.check_sat(o.hyps, 5000, want_model=False)
                seen_paths[o.path] = st
            goal = o.goal
            if z3.is_true(z3.simplify(goal)):
                a["backend"].add("simplify")
                continue
            st, m, be, ms = smt.prove(o.hyps, goal)
            a["ms"] += ms
            a["backend"].add(be)
            if st == "discharged" and seen_paths[o.path] == "unsat":
                a["vacuous"] += 1
            if st == "refuted":
                a["status"] = "refuted"
                if a["model"] is None:
                    a["model"] = {"path": o.path, "model": smt.model_to_dict(m), "goal": str(goal)[:600]}
            elif st == "unknown" and a["status"] == "discharged":
                a["status"] = "unknown"
                a["model"] = str(m)[:300]
        for a in agg.values():
            a["backend"] = "+".join(sorted(a["backend"]))
            if a["vacuous"] and a["status"] == "discharged" and a["vacuous"] == a["instances"]:
                a["status"] = "unknown"
                a["model"] = "vacuous: hypotheses unsatisfiable on every path reaching this obligation"
        out["obs"] = list(agg.values())
        out["paths_outcomes"] = [o[0] if o else "cut" for o in outcomes]
    except Exception:
        out["error"] = traceback.format_exc()
    out["wall"] = time.time() - t0
    return out


def run_contracts(report: Report, specs, workers=None):
    """specs: list of (module, class_name, oid). Adds one Ob per (contract, obligation name)."""
    workers = workers or min(16, max(1, len(specs)))
    results = []
    if len(specs) == 1 or os.environ.get("VERIF_SERIAL"):
        results = [_verify_one(s) for s in specs]
    else:
        with ProcessPoolExecutor(max_workers=workers) as ex:
            futs = [ex.submit(_verify_one, s) for s in specs]
            for f in futs:
                results.append(f.result())
    for r in results:
        fn = r.get("target", r["contract"])
        if r["error"]:
            report.ob(Ob(id=f"{r['oid']}/engine", function=fn, kind="P", status="error", detail="checker crash",
                         model=r["error"][-1500:]))
            continue
        if r["unsupported"]:
            report.ob(Ob(id=f"{r['oid']}/subset", function=fn, kind="P", status="unknown",
                         detail="contract/code structural mismatch or construct outside the pyvc subset: " + r["unsupported"]))
            continue
        if not r["obs"]:
            report.ob(Ob(id=f"{r['oid']}/vacuity", function=fn, kind="P", status="unknown",
                         detail="zero obligations generated"))
        for a in r["obs"]:
            report.ob(Ob(id=f"{r['oid']}/{a['name']}", function=fn, kind="P", status=a["status"], backend=a["backend"],
                         ms=a["ms"], where=r.get("where", ""),
                         detail=f"{a['detail'] or a['name']} [{a['instances']} path instance(s)]", model=a["model"]))
        report.extra.setdefault("pyvc_stats", {})[r["oid"]] = {**r["stats"], "wall_s": round(r.get("wall", 0), 2)}
    return results
