"""Common framework: obligations, reports, evidence files, known findings, exit codes.

Obligation kinds (DESIGN.md section 0):
  P  verification condition generated from the real AST / real objects, discharged by an SMT solver, unbounded
  E  finite data obligation decided by complete enumeration of a finite domain read from the running code
  F  frame / reads obligation discharged by the syntactic frame checker over the real AST
  B  bounded stand-in (run-time contract evaluation over an enumerated scope) -- never counted as proved
"""
from __future__ import annotations

import json
import os
import sys
import time
import traceback
import hashlib
from dataclasses import dataclass, field, asdict
from typing import Any, Callable, Optional

VERIF = os.path.dirname(os.path.dirname(os.path.abspath(__file__)))
REPO = os.environ.get("VERIF_REPO", "/repo")

EXIT_OK, EXIT_VIOLATION, EXIT_UNDECIDED, EXIT_CRASH = 0, 1, 2, 3


def use_repo():
    """Make `import pyteal` resolve to the tree under REPO (the working tree, not a cache)."""
    if REPO not in sys.path:
        sys.path.insert(0, REPO)
    sys.dont_write_bytecode = True
    os.environ.setdefault("PYTHONDONTWRITEBYTECODE", "1")
    import pyteal  # noqa

    got = os.path.dirname(os.path.dirname(os.path.abspath(pyteal.__file__)))
    if os.path.realpath(got) != os.path.realpath(REPO):
        raise RuntimeError(f"pyteal imported from {got}, expected {REPO}")
    return pyteal


@dataclass
class Ob:
    id: str  # e.g. O16.1/inv0/preserved
    function: str  # qualified name of the real function under contract
    kind: str  # P | E | F
    status: str  # discharged | refuted | unknown | error
    backend: str = ""
    ms: float = 0.0
    where: str = ""  # file:line of the real source
    detail: str = ""  # human-readable statement of the obligation
    model: Any = None  # counterexample (when refuted)
    replay: Any = None  # native replay result (when refuted)


@dataclass
class Bounded:
    function: str
    contract: str
    bound: str
    cases: int
    distinct_nontrivial: int
    failures: int = 0


@dataclass
class Violation:
    key: str  # stable identity of the failing input / obligation (matches known_findings.json)
    what: str
    obligation: str = ""
    replay: Any = None  # dict written to the replay file
    confirmed_native: bool = False


class Report:
    def __init__(self, pid: str, tier: str, seed: int, level: str):
        self.pid, self.tier, self.seed, self.level = pid, tier, seed, level
        self.t0 = time.time()
        self.obs: list[Ob] = []
        self.bounded: list[Bounded] = []
        self.violations: list[Violation] = []
        self.undecided: list[str] = []
        self.assumptions: list[str] = []
        self.trusted_base: list[str] = []
        self.functions: list[str] = []
        self.samples: list[Any] = []
        self.extra: dict[str, Any] = {}
        self.solver_ms = 0.0

    # -- recording -------------------------------------------------------------------------
    def ob(self, o: Ob):
        self.obs.append(o)
        self.solver_ms += o.ms
        if o.function and o.function not in self.functions:
            self.functions.append(o.function)
        return o

    def assume(self, *texts: str):
        for t in texts:
            if t not in self.assumptions:
                self.assumptions.append(t)

    def trust(self, *texts: str):
        for t in texts:
            if t not in self.trusted_base:
                self.trusted_base.append(t)

    def sample(self, s: Any, cap: int = 12):
        if len(self.samples) < cap:
            self.samples.append(s)

    def violation(self, v: Violation):
        for w in self.violations:
            if w.key == v.key:
                return
        self.violations.append(v)

    def settle_refuted(self, search=None):
        """One violation per function with refuted obligations. `search(function, obs)` may return a dict
        describing a failing input confirmed on the real code (native replay), or None."""
        byfn: dict[str, list[Ob]] = {}
        for o in self.obs:
            if o.status == "refuted":
                byfn.setdefault(o.function, []).append(o)
        for fn, obs in byfn.items():
            found = None
            if search is not None:
                try:
                    found = search(fn, obs)
                except Exception as e:  # a broken search must not hide the refutation
                    found = None
                    self.extra.setdefault("search_errors", []).append(f"{fn}: {e!r}")
            if not found:
                # enumeration obligations (kind E) are decided by running the real code: their witness is a native failing input
                ew = [o for o in obs if o.kind == "E" and o.model]
                if ew:
                    found = {"input": ew[0].model, "note": "witness of an exhaustive-enumeration obligation (evaluated on the real code)"}
            names = [o.id for o in obs]
            v = Violation(key=names[0], what=f"{fn}: obligation(s) refuted: {', '.join(names[:6])}"
                          + (f" (+{len(names) - 6} more)" if len(names) > 6 else "")
                          + (f"; failing input: {found.get('input')!r}"[:300] if found else ""),
                          obligation=names[0],
                          replay={"function": fn, "refuted": [{"id": o.id, "detail": o.detail, "solver": o.model} for o in obs],
                                  "native": found},
                          confirmed_native=bool(found))
            self.violation(v)
            for o in obs:
                o.replay = "reported"

    def settle_undecided(self, search):
        """Obligations the solvers left undecided (typically: no longer provable after a code change, but the quantified
        hypotheses keep z3 from producing a model): look for a concrete failing input natively. Found -> the obligations
        are reported as refuted with that input; not found -> they stay undecided (exit 2, never a VIOLATION)."""
        byfn: dict[str, list[Ob]] = {}
        for o in self.obs:
            if o.status == "unknown":
                byfn.setdefault(o.function, []).append(o)
        for fn, obs in byfn.items():
            try:
                found = search(fn, obs)
            except Exception as e:
                found = None
                self.extra.setdefault("search_errors", []).append(f"{fn}: {e!r}")
            if found:
                for o in obs:
                    o.status = "refuted"
                    o.model = {"solver": o.model, "note": "solver undecided; concrete failing input found by native search"}

    # -- finishing --------------------------------------------------------------------------
    def finish(self) -> int:
        kf = load_known_findings()
        open_keys = {(k["property"], k["key"]): k for k in kf if k.get("status") == "open"}
        new_violations = []
        known_hit = []
        for v in self.violations:
            k = open_keys.get((self.pid, v.key))
            if k is not None:
                known_hit.append((v, k))
            else:
                new_violations.append(v)

        n_obs = len(self.obs)
        n_dis = sum(1 for o in self.obs if o.status == "discharged")
        refuted = [o for o in self.obs if o.status == "refuted"]
        unknown = [o for o in self.obs if o.status in ("unknown", "error")]
        # every refuted obligation must have produced a violation record (new or known)
        vio_obs = {v.obligation for v in self.violations}
        for o in refuted:
            if o.id not in vio_obs and o.replay != "reported":
                v = Violation(key="obligation:" + o.id, what=f"obligation {o.id} refuted: {o.detail}",
                              obligation=o.id, replay={"obligation": o.id, "function": o.function,
                                                       "solver_output": o.model})
                k = open_keys.get((self.pid, v.key))
                if k is not None:
                    known_hit.append((v, k))
                else:
                    new_violations.append(v)
        for o in unknown:
            self.undecided.append(f"{o.id}: {o.status} {o.detail[:120]} {str(o.model)[:200]}")

        wall = time.time() - self.t0
        cov: dict[str, Any] = {}
        known_refuted = sum(1 for o in refuted)
        cov["obligations"] = n_obs
        cov["discharged"] = n_dis
        cov["refuted_known_findings"] = len(known_hit)
        cov["checker_cmd"] = f"./check {self.pid} --tier {self.tier}"
        cov["trusted_base"] = list(self.trusted_base)
        if self.extra.get("avm_crosscheck_runs"):
            cov["trusted_base"].append(f"spec/avm.py cross-checked in this run against {self.extra['avm_crosscheck_runs']} outcomes upstream observed on a real node "
                                       "(pinned integration goldens, spec/crosscheck.py); self-checks at import: spec/avm, spec/tealcheck; before use: pyvc engine, fragcheck comparison")
        cov["functions_under_contract"] = self.functions
        cov["by_kind"] = {k: {"obligations": sum(1 for o in self.obs if o.kind == k),
                              "discharged": sum(1 for o in self.obs if o.kind == k and o.status == "discharged")}
                          for k in ("P", "E", "F")}
        cov["by_backend"] = {}
        for o in self.obs:
            cov["by_backend"][o.backend] = cov["by_backend"].get(o.backend, 0) + 1
        cov["solver_ms"] = round(self.solver_ms, 1)
        cov["obligation_list"] = [
            {"id": o.id, "function": o.function, "where": o.where, "kind": o.kind, "status": o.status,
             "backend": o.backend, "ms": round(o.ms, 1), "detail": o.detail[:300]} for o in self.obs]
        cov["bounded"] = [asdict(b) for b in self.bounded]
        cov["bounded_note"] = "bounded items are run-time contract checks over a stated scope; never counted in obligations/discharged"
        ev_cases = sum(b.cases for b in self.bounded)
        ev_dn = sum(b.distinct_nontrivial for b in self.bounded)
        cov["evaluations"] = n_obs + ev_cases
        cov["distinct_nontrivial"] = len({o.id for o in self.obs}) + ev_dn
        cov["rule"] = ("obligations are distinct by id (function/clause/path); bounded cases are distinct by "
                       "canonical input and non-trivial when the contract's precondition holds and the real function was executed")
        cov["samples"] = self.samples if self.samples else [
            {"obligation": o.id, "detail": o.detail[:300]} for o in self.obs[:5]]
        cov["explanation"] = self.extra.pop("explanation", "") or (
            "mixed: P/E/F obligations (counted in obligations/discharged) + labelled bounded stand-ins")
        cov.update(self.extra)
        ev = {
            "property_id": self.pid, "tier": self.tier, "seed": self.seed, "level": self.level,
            "coverage": cov, "assumptions": self.assumptions, "wall_s": round(wall, 2),
            "violations": len(new_violations),
            "known_findings_reported": [k["key"] for _, k in known_hit],
            "undecided": self.undecided,
        }
        # development runs against scratch trees (mutation sampling, seed sweeps) keep their output out of the committed evidence
        evdir = os.environ.get("VERIF_EVIDENCE_DIR") or os.path.join(VERIF, "evidence")
        os.makedirs(evdir, exist_ok=True)
        with open(os.path.join(evdir, f"{self.pid}.json"), "w") as f:
            json.dump(ev, f, indent=1, default=str)

        for v, k in known_hit:
            print(f"KNOWN-FINDING: property={self.pid} {k.get('what', v.what)}")
        code = EXIT_OK
        if new_violations:
            rdir = os.path.join(os.environ["VERIF_EVIDENCE_DIR"], "replay") if os.environ.get("VERIF_EVIDENCE_DIR") else os.path.join(VERIF, "replay")
            os.makedirs(rdir, exist_ok=True)
            for v in new_violations:
                h = hashlib.sha1(v.key.encode()).hexdigest()[:10]
                path = os.path.join(rdir, f"{self.pid}_{h}.json")
                with open(path, "w") as f:
                    json.dump({"property": self.pid, "key": v.key, "what": v.what, "obligation": v.obligation,
                               "confirmed_native": v.confirmed_native, "replay": v.replay}, f, indent=1, default=str)
                tail = "" if v.confirmed_native else " no-failing-input-found"
                print(f"VIOLATION property={self.pid} replay={path}{tail}")
                print(f"  what: {v.what[:400]}")
            code = EXIT_VIOLATION
        elif self.undecided:
            for u in self.undecided:
                print(f"UNDECIDED property={self.pid} {u}")
            code = EXIT_UNDECIDED
        elif n_obs == 0 and not self.bounded:
            print(f"UNDECIDED property={self.pid} zero obligations generated (vacuity guard)")
            code = EXIT_UNDECIDED
        print(f"{self.pid} tier={self.tier} obligations={n_obs} discharged={n_dis} "
              f"bounded_cases={ev_cases} known={len(known_hit)} violations={len(new_violations)} "
              f"undecided={len(self.undecided)} wall={wall:.1f}s")
        return code


def load_known_findings():
    p = os.path.join(VERIF, "known_findings.json")
    if not os.path.exists(p):
        return []
    with open(p) as f:
        return json.load(f)["findings"]


def source_loc(fn) -> str:
    import inspect

    try:
        f = inspect.getsourcefile(fn)
        _, ln = inspect.getsourcelines(fn)
        return f"{os.path.relpath(f, REPO)}:{ln}"
    except Exception:
        return "?"
