"""Source verified by the engine canary (vf/canary.py).  Not part of PyTeal; it only exists so that every check run can see the
verification engine refute a wrong contract and discharge a right one before any verdict about /repo is believed."""


def double_count(n, cap):
    if n < 0:
        raise ValueError("negative")
    total = 0
    i = 0
    while i < n:
        total += 2
        i += 1
    if total > cap:
        return cap
    return total
