"""CLI: ./check C16 --tier quick"""
from __future__ import annotations

import argparse
import importlib
import json
import os
import sys
import traceback

from .core import Report, use_repo, EXIT_CRASH, VERIF

LEVELS = {}


def main():
    ap = argparse.ArgumentParser()
    ap.add_argument("pid")
    ap.add_argument("--tier", default=os.environ.get("VERIF_TIER", "quick"))
    ap.add_argument("--replay", default=None)
    a = ap.parse_args()
    seed = int(os.environ.get("VERIF_SEED", "0") or 0)
    sys.path.insert(0, VERIF)
    try:
        use_repo()
        mod = importlib.import_module(f"checks.{a.pid.lower()}")
        if a.replay:
            with open(a.replay) as f:
                sys.exit(mod.replay(json.load(f)))
        rep = Report(a.pid, a.tier, seed, mod.LEVEL)
        # trusted base: the reference interpreter must agree with outcomes upstream observed on a real node (147 runs of the pinned
        # integration goldens, < 1 s) before any verdict that rests on it is produced
        from spec import crosscheck
        rep.extra["avm_crosscheck_runs"] = crosscheck.quick()
        mod.run(rep, a.tier, seed)
        sys.exit(rep.finish())
    except SystemExit:
        raise
    except Exception:
        traceback.print_exc()
        print(f"CRASH property={a.pid}")
        sys.exit(EXIT_CRASH)


if __name__ == "__main__":
    main()
