"""Symbolic AVM semantics (trusted specification), keyed by TEAL mnemonic.

Two stack representations share `step`:
  ListStack  - python list of z3 terms (concrete relative height)        -> fragment checks
  ArrStack   - (z3 Array Int->Int, z3 height)                              -> symbolic-height proofs (spill)

Values are mathematical integers; uint64 range facts are carried as explicit side conditions
(`fail` accumulates the failure condition, i.e. the AVM would panic).
"""
from __future__ import annotations

import z3

U64 = 2 ** 64


class Fail(Exception):
    pass


class ListStack:
    def __init__(self, items=None):
        self.items = list(items or [])
        self.underflow = False  # popped below what this fragment pushed: contract violation

    def copy(self):
        s = ListStack(self.items)
        s.underflow = self.underflow
        return s

    def push(self, v):
        self.items.append(v)

    def pop(self):
        if not self.items:
            self.underflow = True
            raise Fail("stack underflow below fragment entry")
        return self.items.pop()

    def peek(self, n):  # n = 0 is top
        if n >= len(self.items):
            self.underflow = True
            raise Fail("dig below fragment entry")
        return self.items[-1 - n]

    def cover(self, n):
        if n >= len(self.items):
            self.underflow = True
            raise Fail("cover below fragment entry")
        v = self.items.pop()
        self.items.insert(len(self.items) - n, v)

    def uncover(self, n):
        if n >= len(self.items):
            self.underflow = True
            raise Fail("uncover below fragment entry")
        v = self.items.pop(len(self.items) - 1 - n)
        self.items.append(v)

    def bury(self, n):
        v = self.pop()
        if n - 1 >= len(self.items) or n == 0:
            self.underflow = True
            raise Fail("bury")
        self.items[-n] = v

    def height(self):
        return len(self.items)


class ArrStack:
    """Stack as (array, height); index 0 is the bottom. All immediates may be symbolic."""

    def __init__(self, arr, h):
        self.arr, self.h = arr, h
        self.side = []  # conditions that must hold for no underflow (proof obligations)

    def copy(self):
        s = ArrStack(self.arr, self.h)
        s.side = list(self.side)
        return s

    def push(self, v):
        self.arr = z3.Store(self.arr, self.h, v)
        self.h = self.h + 1

    def pop(self):
        self.side.append(self.h >= 1)
        self.h = self.h - 1
        return z3.Select(self.arr, self.h)

    def peek(self, n):
        self.side.append(z3.And(n >= 0, self.h - 1 - n >= 0))
        return z3.Select(self.arr, self.h - 1 - n)

    def cover(self, n):
        # move top down n places: new[h-1-n] = old[h-1]; new[i] = old[i-1] for h-1-n < i <= h-1
        self.side.append(z3.And(n >= 0, self.h - 1 - n >= 0))
        i = z3.Int("ci!")
        old, h = self.arr, self.h
        self.arr = z3.Lambda([i], z3.If(i == h - 1 - n, z3.Select(old, h - 1),
                                        z3.If(z3.And(i > h - 1 - n, i <= h - 1), z3.Select(old, i - 1),
                                              z3.Select(old, i))))

    def uncover(self, n):
        # move the element at depth n to the top: new[h-1] = old[h-1-n]; new[i] = old[i+1] for h-1-n <= i < h-1
        self.side.append(z3.And(n >= 0, self.h - 1 - n >= 0))
        i = z3.Int("ui!")
        old, h = self.arr, self.h
        self.arr = z3.Lambda([i], z3.If(i == h - 1, z3.Select(old, h - 1 - n),
                                        z3.If(z3.And(i >= h - 1 - n, i < h - 1), z3.Select(old, i + 1),
                                              z3.Select(old, i))))

    def height(self):
        return self.h


class SymState:
    """stack + scratch array + accumulated failure condition."""

    def __init__(self, stack, scratch=None, fail=None):
        self.stack = stack
        self.scratch = scratch if scratch is not None else z3.Array("scratch0", z3.IntSort(), z3.IntSort())
        self.fail = fail if fail is not None else z3.BoolVal(False)
        self.halted = None  # ("return", value) | ("retsub",) | ("err",)

    def copy(self):
        s = SymState(self.stack.copy(), self.scratch, self.fail)
        s.halted = self.halted
        return s

    def add_fail(self, cond):
        self.fail = z3.simplify(z3.Or(self.fail, cond))


def _imm(args, i=0):
    return args[i]


def step(st: SymState, mnemonic: str, args: list):
    """Execute one non-branching op. `args` are the immediates (python ints or z3 Ints)."""
    s = st.stack
    m = mnemonic
    if m == "//":
        return
    if m == "int" or m == "pushint":
        v = args[0]
        s.push(z3.IntVal(v) if isinstance(v, int) else v)
    elif m == "pop":
        s.pop()
    elif m == "dup":
        v = s.peek(0)
        s.push(v)
    elif m == "dup2":
        a, b = s.peek(1), s.peek(0)
        s.push(a)
        s.push(b)
    elif m == "swap":
        s.uncover(1)
    elif m == "dig":
        s.push(s.peek(args[0]))
    elif m == "cover":
        s.cover(args[0])
    elif m == "uncover":
        s.uncover(args[0])
    elif m == "bury":
        s.bury(args[0])
    elif m == "load":
        s.push(z3.Select(st.scratch, args[0]))
    elif m == "store":
        v = s.pop()
        st.scratch = z3.Store(st.scratch, args[0], v)
    elif m == "+":
        b, a = s.pop(), s.pop()
        st.add_fail(a + b >= U64)
        s.push(a + b)
    elif m == "-":
        b, a = s.pop(), s.pop()
        st.add_fail(a - b < 0)
        s.push(a - b)
    elif m == "*":
        b, a = s.pop(), s.pop()
        st.add_fail(a * b >= U64)
        s.push(a * b)
    elif m == "/":
        b, a = s.pop(), s.pop()
        st.add_fail(b == 0)
        s.push(a / b)
    elif m == "%":
        b, a = s.pop(), s.pop()
        st.add_fail(b == 0)
        s.push(a % b)
    elif m == "mulw":
        b, a = s.pop(), s.pop()
        p = a * b
        s.push(p / U64)
        s.push(p % U64)
    elif m == "addw":
        b, a = s.pop(), s.pop()
        p = a + b
        s.push(p / U64)
        s.push(p % U64)
    elif m == "divmodw":
        d_lo, d_hi, n_lo, n_hi = s.pop(), s.pop(), s.pop(), s.pop()
        N = n_hi * U64 + n_lo
        D = d_hi * U64 + d_lo
        st.add_fail(D == 0)
        q, r = N / D, N % D
        s.push(q / U64)
        s.push(q % U64)
        s.push(r / U64)
        s.push(r % U64)
    elif m == "!":
        a = s.pop()
        s.push(z3.If(a == 0, z3.IntVal(1), z3.IntVal(0)))
    elif m == "==":
        b, a = s.pop(), s.pop()
        s.push(z3.If(a == b, z3.IntVal(1), z3.IntVal(0)))
    elif m == "!=":
        b, a = s.pop(), s.pop()
        s.push(z3.If(a != b, z3.IntVal(1), z3.IntVal(0)))
    elif m == "<":
        b, a = s.pop(), s.pop()
        s.push(z3.If(a < b, z3.IntVal(1), z3.IntVal(0)))
    elif m == ">":
        b, a = s.pop(), s.pop()
        s.push(z3.If(a > b, z3.IntVal(1), z3.IntVal(0)))
    elif m == "<=":
        b, a = s.pop(), s.pop()
        s.push(z3.If(a <= b, z3.IntVal(1), z3.IntVal(0)))
    elif m == ">=":
        b, a = s.pop(), s.pop()
        s.push(z3.If(a >= b, z3.IntVal(1), z3.IntVal(0)))
    elif m == "&&":
        b, a = s.pop(), s.pop()
        s.push(z3.If(z3.And(a != 0, b != 0), z3.IntVal(1), z3.IntVal(0)))
    elif m == "||":
        b, a = s.pop(), s.pop()
        s.push(z3.If(z3.Or(a != 0, b != 0), z3.IntVal(1), z3.IntVal(0)))
    elif m == "assert":
        a = s.pop()
        st.add_fail(a == 0)
    elif m == "err":
        st.add_fail(z3.BoolVal(True))
        st.halted = ("err",)
    elif m == "return":
        v = s.pop()
        st.halted = ("return", v)
    elif m == "retsub":
        st.halted = ("retsub",)
    else:
        raise KeyError(f"symavm: op {m!r} is not interpreted")
