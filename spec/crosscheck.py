#!/usr/bin/env python3
"""Cross-check of the reference interpreter spec/avm.py against behaviour that was observed on a real node.

The repository ships golden TEAL files of its *integration* tests (tests/integration/teal/...), together with the assertions those
tests make about running them on an algod sandbox (dry-run).  Neither the sandbox nor graviton is available here, but the files and
the asserted outcomes are: running the same files on spec/avm.py must give the outcomes the integration tests demand of the node.
The files are a verbatim copy taken at the pinned commit (spec/goldens/, see its README) so that this validates the interpreter
independently of the working tree under test.

  stability/app_*.teal      (tests/integration/graviton_test.py APP_SCENARIOS: last log, pass/reject, cost - transcribed below)
  roundtrip/app_roundtrip_<type>_v{6,8}.teal   (abi_roundtrip_test.py: the logged tuple (x, f(x), f(f(x))) has x == input == f(f(x)),
                                                f = complement; v6 uses scratch slots, v8 frame pointers with many locals)

This validates the trusted base (it is not a check of any of the 20 properties); the result is recorded in DESIGN.md.
usage: python -m spec.crosscheck        (full);   quick() is run once per check process by vf/main.py
"""
import glob
import os
import random
import sys

VERIF = os.path.dirname(os.path.dirname(os.path.abspath(__file__)))
sys.path.insert(0, VERIF)
GOLD = os.path.join(VERIF, "spec", "goldens")
from spec import avm  # noqa: E402


def u(n):
    return n.to_bytes(8, "big")


def fac(n):
    return 1 if n < 2 else n * fac(n - 1)


def fib(n):
    a, b = 0, 1
    for _ in range(n):
        a, b = b, a + b
    return a


def stability(step=1):
    """(file, args, expected verdict or None, expected last log or None, cost predicate or None)"""
    d = os.path.join(GOLD, "stability")
    cases = []
    cases.append(("app_exp.teal", [], "approve", u(1024), lambda c: c in (11, 12)))
    for i in range(100):
        cases.append(("app_square_byref.teal", [u(i)], "approve", u(1337), lambda c: 20 < c < 24))
        cases.append(("app_square.teal", [u(i)], "approve" if i > 0 else "reject", u(i * i), lambda c: c == 14))
        if 0 <= i < 45:
            cases.append(("app_string_mult.teal", [b"xyzw", u(i)], "approve" if i > 0 else "reject", b"xyzw" * i, None))
    for a, b in ((u(1), u(2)), (u(1), b"two"), (b"one", u(2)), (b"one", b"two")):
        cases.append(("app_swap.teal", [a, b], "approve", u(1337), lambda c: c in (27, 30)))
    for n in range(25):
        if n < 21:
            cases.append(("app_oldfac.teal", [u(n)], "approve", u(fac(n)), None))
        else:
            cases.append(("app_oldfac.teal", [u(n)], "fail", None, None))
    for n in range(8):
        cases.append(("app_slow_fibonacci.teal", [u(n)], "approve" if n > 0 else "reject", u(fib(n)), None))
    bad, ran = [], 0
    for f, args, verdict, log, costp in cases[::step]:
        teal = open(os.path.join(d, f)).read()
        r = avm.run(teal, avm.Ctx(txn={"ApplicationArgs": args}))
        ran += 1
        last = r.logs[-1] if r.logs else None
        if r.verdict != verdict:
            bad.append((f, args, f"verdict {r.verdict} ({r.detail}), the node gives {verdict}"))
        elif log is not None and last != log:
            bad.append((f, args, f"last log {last!r}, the node gives {log!r}"))
        elif costp is not None and hasattr(r, "cost") and not costp(r.cost):
            bad.append((f, args, f"cost {r.cost} outside what the node reports"))
    return ran, bad


def gen(t, r, length=None):
    """a random value of algosdk type t; dynamic arrays / strings get the element count the golden program was generated for
    (tests/abi_roundtrip.py: the given length at top level, DEFAULT_DYNAMIC_ARRAY_LENGTH = 3 everywhere else)"""
    from algosdk import abi
    n = 3 if length is None else length
    if isinstance(t, abi.BoolType):
        return r.random() < 0.5
    if isinstance(t, abi.ByteType):
        return r.choice([0, 1, 127, 128, 255])
    if isinstance(t, abi.UintType):
        return r.choice([0, 1, 2 ** (t.bit_size - 1), 2 ** t.bit_size - 1, r.randrange(2 ** t.bit_size)])
    if isinstance(t, abi.AddressType):
        return bytes(r.randrange(256) for _ in range(32))
    if isinstance(t, abi.StringType):
        return "".join(r.choice("abcxyz019 ~") for _ in range(n))
    if isinstance(t, abi.ArrayStaticType):
        return [gen(t.child_type, r) for _ in range(t.static_length)]
    if isinstance(t, abi.ArrayDynamicType):
        return [gen(t.child_type, r) for _ in range(n)]
    if isinstance(t, abi.TupleType):
        return [gen(c, r) for c in t.child_types]
    raise ValueError(t)


def roundtrip(seed=0, per_file=6):
    from algosdk import abi as sabi
    sys.path.insert(0, os.path.join(VERIF, "checks"))
    from checks import abi_e2e as A
    r = random.Random(seed)
    bad, ran, skipped = [], 0, 0
    for path in sorted(glob.glob(os.path.join(GOLD, "roundtrip", "app_roundtrip_*.teal"))):
        name = os.path.basename(path)[len("app_roundtrip_"):-len(".teal")]
        tstr, ver = name.rsplit("_v", 1)
        dyn = None
        if "_" in tstr and tstr.rsplit("_", 1)[1].isdigit():
            tstr, dl = tstr.rsplit("_", 1)
            dyn = int(dl)
        if tstr in ("()",):
            skipped += 1
            continue
        try:
            t = sabi.ABIType.from_string(tstr)
        except Exception:
            skipped += 1
            continue
        teal = open(path).read()
        out_t = sabi.TupleType([t, t, t])
        for k in range(per_file):
            v = gen(t, r, dyn)
            enc = t.encode(v)
            try:
                res = avm.run(teal, avm.Ctx(txn={"ApplicationArgs": [enc]}, budget=10 ** 7))
            except avm.Unsupported:
                skipped += 1
                continue
            ran += 1
            if res.verdict != "approve" or not res.logs or res.logs[-1][:4] != bytes.fromhex("151f7c75"):
                bad.append((name, v, f"{res.verdict} {res.detail}"))
                continue
            try:
                x, y, z = out_t.decode(res.logs[-1][4:])
            except Exception as e:
                bad.append((name, v, f"logged value does not decode as ({tstr},{tstr},{tstr}): {e}"))
                continue
            if t.encode(x) != enc or t.encode(z) != enc:
                bad.append((name, v, f"round trip broken: input {enc.hex()[:40]} x {t.encode(x).hex()[:40]} f(f(x)) {t.encode(z).hex()[:40]}"))
            elif t.byte_len() if not t.is_dynamic() else True:
                if t.encode(y) == enc and enc not in (b"", b"\x00\x00") and tstr not in ("string", "byte[]") and any(c for c in enc):
                    pass   # f may fix some values (e.g. empty arrays); not asserted
    return ran, skipped, bad


def quick():
    """~150 runs, about a second: every golden file once.  Raises if the interpreter disagrees with the node."""
    sr, sb = stability(step=5)
    rr, rs, rb = roundtrip(per_file=1)
    if sb or rb or sr < 40 or rr < 80:
        raise RuntimeError(f"spec.avm disagrees with outcomes observed on a real node (or the goldens are missing): {sr}+{rr} runs, {(sb + rb)[:2]}")
    return sr + rr


def main():
    sr, sb = stability()
    print(f"stability goldens: {sr} runs, {len(sb)} disagreements")
    for b in sb[:5]:
        print("  ", b)
    rr, rs, rb = roundtrip()
    print(f"roundtrip goldens: {rr} runs ({rs} skipped), {len(rb)} disagreements")
    for b in rb[:5]:
        print("  ", str(b)[:300])
    return 1 if sb or rb else 0


if __name__ == "__main__":
    sys.exit(main())
