"""Static checks of a TEAL program text (trusted specification side; used by C04 / C05 bounded stand-ins).

validate(teal, version, mode) -> list of problem strings:
  * structure: #pragma first and matching, known opcodes legal at version/mode (spec.langspec), immediate counts and
    uint8 ranges, labels defined exactly once, every branch / callsub target defined, no placeholder text
  * control flow: every path from the entry and from each subroutine label ends in return / retsub / err;
    no path runs off the end or falls through into a subroutine label
  * stack discipline (abstract interpretation over the CFG): the stack height relative to the routine entry is the
    same along every path to an instruction, never below what the routine owns, retsub leaves a consistent delta;
    definite type errors (bytes where uint64 is required and vice versa) using langspec operand types
"""
from __future__ import annotations

from .avm import parse, tokenize_line
from .langspec import OPS

U8_IMM = {"load": [0], "store": [0], "arg": [0], "gtxn": [0], "gtxna": [0, 2], "txna": [1], "dig": [0], "cover": [0], "uncover": [0],
          "bury": [0], "popn": [0], "dupn": [0], "intc": [0], "bytec": [0], "substring": [0, 1], "extract": [0, 1],
          "gload": [0, 1], "gloads": [0], "gaid": [0], "proto": [0, 1], "gtxnsa": [1], "gtxnas": [0], "gitxn": [0],
          "gitxna": [0, 2], "itxna": [1], "replace2": [0]}
I8_IMM = {"frame_dig": [0], "frame_bury": [0]}
TERMINATORS = {"return", "retsub", "err"}


def validate(teal: str, version: int, mode: str, stack: bool = True):
    """stack=False: structure and control flow only (what an assembler / loader checks), no abstract interpretation"""
    probs = []
    lines = teal.split("\n")
    if not lines or lines[0].strip() != f"#pragma version {version}":
        probs.append(f"first line is {lines[0]!r}, expected '#pragma version {version}'")
    try:
        prog = parse(teal)
    except Exception as e:
        return probs + [f"does not parse: {e}"]
    ops, labels = prog.ops, prog.labels
    n = len(ops)
    sub_targets = set()
    for i, (m, im, ln) in enumerate(ops):
        spec = OPS.get(m)
        if spec is None:
            probs.append(f"line {ln}: unknown opcode {m!r}")
            continue
        fv, modes, nimm, pops, pushes = spec
        if max(fv, 1) > version:
            probs.append(f"line {ln}: {m} needs version {fv}, program is version {version}")
        if ("A" if mode == "Application" else "L") not in modes:
            probs.append(f"line {ln}: {m} not available in {mode} mode")
        if nimm is not None and m not in ("byte", "pushbytes", "method", "addr", "int", "pushint") and len(im) != nimm:
            probs.append(f"line {ln}: {m} takes {nimm} immediate(s), got {len(im)}")
        for k in U8_IMM.get(m, []):
            if k < len(im):
                try:
                    v = int(im[k])
                    if not (0 <= v <= 255):
                        probs.append(f"line {ln}: {m} immediate {v} does not fit uint8")
                except ValueError:
                    probs.append(f"line {ln}: {m} immediate {im[k]!r} is not a number")
        for k in I8_IMM.get(m, []):
            if k < len(im):
                try:
                    v = int(im[k])
                    if not (-128 <= v <= 127):
                        probs.append(f"line {ln}: {m} immediate {v} does not fit int8")
                except ValueError:
                    probs.append(f"line {ln}: {m} immediate {im[k]!r} is not a number")
        if m in ("int", "pushint") and im:
            t = im[0]
            if t.isdigit() and int(t) >= 2 ** 64:
                probs.append(f"line {ln}: integer literal out of range")
        if m in ("b", "bz", "bnz", "callsub"):
            if len(im) != 1 or im[0] not in labels:
                probs.append(f"line {ln}: {m} target {im} is not a defined label")
            elif m == "callsub":
                sub_targets.add(labels[im[0]])
        for t in im:
            if "ScratchSlot" in t or "SubroutineDefinition" in t or t.startswith("slot#"):
                probs.append(f"line {ln}: placeholder survives in {m} {t}")
    if probs:
        return probs
    # ---- control flow --------------------------------------------------------------------------------
    def succs(i):
        m, im, _ = ops[i]
        if m in TERMINATORS:
            return []
        if m == "b":
            return [labels[im[0]]]
        out = [i + 1]
        if m in ("bz", "bnz"):
            out.append(labels[im[0]])
        return out

    entries = [0] + sorted(sub_targets)
    for e in entries:
        if e >= n:
            probs.append("entry label at end of program")
            continue
        seen, todo = set(), [e]
        while todo:
            i = todo.pop()
            if i in seen:
                continue
            seen.add(i)
            for j in succs(i):
                if j >= n:
                    probs.append(f"line {ops[i][2]}: control runs off the end of the program")
                elif j in sub_targets and j == i + 1 and ops[i][0] not in ("b",):
                    probs.append(f"line {ops[i][2]}: falls through into subroutine at line {ops[j][2]}")
                    continue
                else:
                    todo.append(j)
    if probs:
        return probs
    # ---- stack heights and types -----------------------------------------------------------------------
    if stack:
        probs += stack_check(prog, sub_targets)
    return probs


def discipline(teal: str, version: int, mode: str):
    """Only the findings of the stack-height / type pass (C05's clauses); [] when the text is not analysable because of structural
    findings (those belong to C04 and are reported there)."""
    if validate(teal, version, mode, stack=False):
        return []
    return validate(teal, version, mode)


def stack_check(prog, sub_targets):
    ops, labels = prog.ops, prog.labels
    n = len(ops)
    probs = []
    # summaries of subroutines: (delta, min_depth) relative to entry; computed by iterating to a fixpoint
    summary = {t: None for t in sub_targets}

    def analyse(entry, is_sub):
        """returns (delta at retsub or None, min relative height, problems)"""
        heights = {entry: (0, ())}  # index -> (height, type tuple of the owned part)
        work = [entry]
        minh = 0
        delta = None
        local = []
        proto = None
        proto_h = 0
        while work:
            i = work.pop()
            h, types = heights[i]
            types = list(types)
            m, im, ln = ops[i]
            spec = OPS[m]
            pops, pushes = spec[3], spec[4]

            def need(k):
                nonlocal minh
                if h - k < minh:
                    minh = h - k

            nh, ntypes = h, types
            if m == "proto":
                proto = (int(im[0]), int(im[1]))
                proto_h = h
            if m == "callsub":
                s = summary[labels[im[0]]]
                if s is None:
                    continue  # not yet known; revisit in the next round
                d, mn = s
                need(-mn)
                k = min(len(ntypes), -mn) if mn < 0 else 0
                ntypes = ntypes[:len(ntypes) - k] + ["a"] * max(0, d - mn)
                nh = h + d
            elif m in ("dig", "frame_dig"):
                if m == "dig":
                    need(int(im[0]) + 1)
                else:
                    k_ = int(im[0])
                    if proto is None:
                        local.append(f"line {ln}: frame_dig without proto")
                    elif k_ < -proto[0]:
                        local.append(f"line {ln}: frame_dig {k_} reaches below the {proto[0]} argument cell(s) the routine owns")
                    elif k_ >= h - proto_h:
                        local.append(f"line {ln}: frame_dig {k_} reads above the top of the stack (frame holds {h - proto_h} value(s))")
                nh = h + 1
                # a non-negative frame index addresses the k-th value pushed since `proto` (types are tracked from the routine entry)
                cell = None
                if m == "frame_dig" and proto is not None and proto_h == 0 and 0 <= int(im[0]) < len(ntypes) and len(ntypes) == h:
                    cell = ntypes[int(im[0])]
                ntypes = ntypes + [cell or "a"]
            elif m in ("cover", "uncover"):
                need(int(im[0]) + 1)
                k = int(im[0]) + 1
                if len(ntypes) >= k:
                    seg = ntypes[len(ntypes) - k:]
                    seg = ([seg[-1]] + seg[:-1]) if m == "cover" else (seg[1:] + [seg[0]])
                    ntypes = ntypes[:len(ntypes) - k] + seg
                else:
                    ntypes = ["a"] * len(ntypes)
            elif m == "popn":
                k = int(im[0]); need(k); nh = h - k; ntypes = ntypes[:max(0, len(ntypes) - k)]
            elif m == "dupn":
                k = int(im[0]); need(1); nh = h + k; ntypes = ntypes + [ntypes[-1] if ntypes else "a"] * k
            elif m == "bury":
                need(int(im[0]) + 1 if int(im[0]) > 0 else 1); nh = h - 1; ntypes = ["a"] * max(0, len(ntypes) - 1)
            elif m == "frame_bury":
                need(1); nh = h - 1
                k_ = int(im[0])
                if proto is not None and proto_h == 0 and len(ntypes) == h and 0 <= k_ < len(ntypes) - 1:
                    top = ntypes[-1]
                    ntypes = ntypes[:-1]
                    ntypes[k_] = top       # the cell now holds the buried value's type
                else:
                    ntypes = ["a"] * max(0, len(ntypes) - 1)
                if proto is None:
                    local.append(f"line {ln}: frame_bury without proto")
                elif k_ < -proto[0]:
                    local.append(f"line {ln}: frame_bury {k_} writes below the {proto[0]} argument cell(s) the routine owns")
                elif k_ >= (h - 1) - proto_h:
                    local.append(f"line {ln}: frame_bury {k_} writes above the top of the stack")
            elif m == "dup":
                need(1); nh = h + 1; ntypes = ntypes + [ntypes[-1] if ntypes else "a"]
            elif m == "dup2":
                need(2); nh = h + 2; ntypes = ntypes + (ntypes[-2:] if len(ntypes) >= 2 else ["a", "a"])
            elif m == "swap":
                need(2)
                if len(ntypes) >= 2:
                    ntypes = ntypes[:-2] + [ntypes[-1], ntypes[-2]]
            elif m == "select":
                need(3); nh = h - 2
                ntypes = ntypes[:max(0, len(ntypes) - 3)] + ["a"]
            else:
                k = len(pops)
                need(k)
                # definite type errors
                for j, want in enumerate(pops):
                    idx = len(ntypes) - k + j
                    if idx >= 0 and idx < len(ntypes):
                        have = ntypes[idx]
                        if want in "ub" and have in "ub" and want != have:
                            local.append(f"line {ln}: {m} applied to {'bytes' if have == 'b' else 'uint64'} where {'bytes' if want == 'b' else 'uint64'} is required")
                ntypes = ntypes[:max(0, len(ntypes) - k)] + list(pushes)
                nh = h - k + len(pushes)
            if m == "retsub":
                if proto is not None:
                    d = proto[1] - proto[0]
                    if h < proto[1]:
                        local.append(f"line {ln}: retsub with fewer than the {proto[1]} declared results above the frame")
                    if delta is None:
                        delta = d
                else:
                    if delta is None:
                        delta = h
                    elif delta != h:
                        local.append(f"line {ln}: retsub with stack height {h}, another retsub of the routine has {delta}")
                continue
            if m in ("return", "err"):
                continue
            if m == "b":
                nxt = [labels[im[0]]]
            else:
                nxt = [i + 1]
                if m in ("bz", "bnz"):
                    nxt.append(labels[im[0]])
            for j in nxt:
                if j >= n:
                    continue
                if j in heights:
                    if heights[j][0] != nh:
                        local.append(f"line {ops[j][2]}: reached with stack heights {heights[j][0]} and {nh} along different paths")
                    else:
                        old = heights[j][1]
                        merged = tuple(a if a == b else "a" for a, b in zip(old, ntypes)) if len(old) == len(ntypes) else tuple(["a"] * len(old))
                        if merged != old:
                            heights[j] = (nh, merged)
                            work.append(j)
                else:
                    heights[j] = (nh, tuple(ntypes))
                    work.append(j)
        return delta, minh, local, proto

    # iterate until summaries are stable (call graph may be recursive: start from an optimistic guess per routine)
    for _ in range(len(sub_targets) + 2):
        changed = False
        for t in sorted(sub_targets):
            d, mn, loc, proto = analyse(t, True)
            if proto is not None:
                s = (proto[1] - proto[0], -proto[0])
            elif d is not None:
                s = (d, mn)
            else:
                s = summary[t]
            if s is not None and s != summary[t]:
                summary[t] = s
                changed = True
        if not changed:
            break
    for t in sorted(sub_targets):
        if summary[t] is None:
            summary[t] = (0, 0)  # routine that never returns (only exits): any summary is fine
    d, mn, loc, _ = analyse(0, False)
    probs += loc
    if mn < 0:
        probs.append(f"main routine pops {-mn} value(s) below the empty entry stack")
    for t in sorted(sub_targets):
        d, mn, loc, proto = analyse(t, True)
        probs += loc
        if proto is not None and mn < -proto[0]:
            probs.append(f"subroutine at line {ops[t][2]} reaches {-mn} below its frame but declares {proto[0]} argument(s)")
    return sorted(set(probs))


def _canary():
    """Vacuity guard, run at import: programs that break each clause must be reported (a validator that reports nothing proves nothing)."""
    bad = {
        "type": '#pragma version 10\nbyte "a"\nint 1\n+\nreturn\n',
        "return-type": '#pragma version 10\nbyte "a"\nreturn\n',
        "underflow": "#pragma version 10\nint 1\n+\nreturn\n",
        "join-height": "#pragma version 10\nint 1\nbz l\nint 2\nl:\nint 1\nreturn\n",
        "fallthrough": "#pragma version 10\nint 1\n",
        "imm": "#pragma version 10\nint 1\nstore 256\nint 1\nreturn\n",
        "version": "#pragma version 2\nint 1\ngtxns Fee\nreturn\n",
    }
    for k, t in bad.items():
        v = 2 if k == "version" else 10
        got = validate(t, v, "Application")
        if not got:
            raise RuntimeError(f"spec.tealcheck canary {k!r}: a program that breaks the clause is accepted - the validator is vacuous")
        if k in ("type", "return-type") and not any("applied to" in p for p in got):
            raise RuntimeError(f"spec.tealcheck canary {k!r}: type errors are no longer reported with the text the harnesses filter on: {got}")
    good = "#pragma version 10\nint 1\nint 2\n+\nreturn\n"
    if validate(good, 10, "Application"):
        raise RuntimeError(f"spec.tealcheck canary: a correct program is reported: {validate(good, 10, 'Application')}")


_canary()
