"""Concrete AVM interpreter for TEAL text (trusted specification; written from the AVM spec, independent of pyteal).

Used for replay of counterexamples and for bounded stand-ins. Supports the ops pyteal's core constructs
emit; anything else raises Unsupported (the caller then does not count the case).
Outcome: ("approve"|"reject"|"fail", detail) + effects (logs, global/local state writes, inner txns).
"""
from __future__ import annotations

import base64
import hashlib
import re
from dataclasses import dataclass, field

U64 = 2 ** 64
MAX_BYTES = 4096


class Unsupported(Exception):
    pass


class Panic(Exception):
    pass


# ------------------------------------------------------------------ parsing ----------------------------
def _unescape(body: str) -> bytes:
    out = bytearray()
    i = 0
    while i < len(body):
        c = body[i]
        if c == "\\":
            i += 1
            if i >= len(body):
                raise ValueError("dangling backslash")
            e = body[i]
            if e == "n":
                out.append(10)
            elif e == "r":
                out.append(13)
            elif e == "t":
                out.append(9)
            elif e == "\\":
                out.append(92)
            elif e == '"':
                out.append(34)
            elif e == "x":
                out.append(int(body[i + 1:i + 3], 16))
                i += 2
            else:
                raise ValueError(f"bad escape \\{e}")
            i += 1
        else:
            out.extend(c.encode("utf-8"))
            i += 1
    return bytes(out)


def tokenize_line(line: str):
    """Split a TEAL line into tokens; handles quoted strings, // comments and ';' separators.
    Returns a list of statements (each a list of tokens)."""
    stmts, toks, cur = [], [], None
    i, n = 0, len(line)
    while i < n:
        c = line[i]
        if c == '"':
            j = i + 1
            while j < n:
                if line[j] == "\\":
                    j += 2
                    continue
                if line[j] == '"':
                    break
                j += 1
            if j >= n:
                raise ValueError("unterminated string literal: " + line)
            toks.append(line[i:j + 1])
            i = j + 1
            continue
        if c == "/" and i + 1 < n and line[i + 1] == "/":
            break
        if c == ";":
            if toks:
                stmts.append(toks)
            toks = []
            i += 1
            continue
        if c in " \t":
            i += 1
            continue
        j = i
        # as in the reference assembler's field splitter: `//` does not start a comment inside base64( ... ) / b64( ... )
        # nor inside the field that follows the `base64` / `b64` keyword (the base64 alphabet contains '/')
        in_b64 = bool(toks) and toks[-1] in ("base64", "b64")
        while j < n and line[j] not in ' \t;':
            if line[j] == "/" and j + 1 < n and line[j + 1] == "/" and not in_b64:
                break
            if line[j] == "(" and line[i:j] in ("base64", "b64"):
                in_b64 = True
            elif line[j] == ")" and in_b64:
                in_b64 = False
            j += 1
        toks.append(line[i:j])
        i = j
    if toks:
        stmts.append(toks)
    return stmts


def parse_bytes_literal(toks):
    """byte-literal tokens (after the opcode) -> (bytes, tokens consumed)."""
    t = toks[0]
    if t.startswith('"'):
        return _unescape(t[1:-1]), 1
    if t.startswith("0x"):
        return bytes.fromhex(t[2:]), 1
    if t.startswith("base64(") or t.startswith("b64("):
        inner = t[t.index("(") + 1:-1]
        return base64.b64decode(inner, validate=True), 1
    if t.startswith("base32(") or t.startswith("b32("):
        inner = t[t.index("(") + 1:-1]
        pad = "=" * (-len(inner.rstrip("=")) % 8)
        return base64.b32decode(inner.rstrip("=") + pad), 1
    if t in ("base64", "b64"):
        return base64.b64decode(toks[1], validate=True), 2
    if t in ("base32", "b32"):
        inner = toks[1]
        pad = "=" * (-len(inner.rstrip("=")) % 8)
        return base64.b32decode(inner.rstrip("=") + pad), 2
    raise ValueError(f"bad byte literal {t}")


NAMED_INT = {"NoOp": 0, "OptIn": 1, "CloseOut": 2, "ClearState": 3, "UpdateApplication": 4, "DeleteApplication": 5,
             "unknown": 0, "pay": 1, "keyreg": 2, "acfg": 3, "axfer": 4, "afrz": 5, "appl": 6}


def parse_int_literal(t, tmpl=None):
    if t in NAMED_INT:
        return NAMED_INT[t]
    if t.startswith("TMPL_"):
        if tmpl is not None and t in tmpl:
            return tmpl[t]
        raise Unsupported("template int " + t)
    if t.startswith("0x"):
        return int(t, 16)
    if t.startswith("0") and len(t) > 1 and t.isdigit():
        return int(t, 8)
    return int(t)


@dataclass
class Program:
    version: int
    ops: list  # list of (mnemonic, [immediate tokens], source line no)
    labels: dict  # label -> index into ops


def parse(teal: str) -> Program:
    version = 1
    ops, labels = [], {}
    for ln, line in enumerate(teal.split("\n"), 1):
        s = line.strip()
        if not s:
            continue
        if s.startswith("#pragma"):
            parts = s.split()
            if len(parts) >= 3 and parts[1] == "version":
                if ops:
                    raise ValueError("#pragma version not first")
                version = int(parts[2])
            continue
        for toks in tokenize_line(line):
            if len(toks) == 1 and toks[0].endswith(":") and not toks[0].startswith('"'):
                lab = toks[0][:-1]
                if lab in labels:
                    raise ValueError(f"duplicate label {lab}")
                labels[lab] = len(ops)
                continue
            ops.append((toks[0], toks[1:], ln))
    return Program(version, ops, labels)


# ------------------------------------------------------------------ execution ---------------------------
@dataclass
class Ctx:
    """Transaction context. Everything the program can read that this interpreter models."""
    mode: str = "Application"
    args: list = field(default_factory=list)  # LogicSig args
    txn: dict = field(default_factory=dict)  # field -> value (ints / bytes / lists for array fields)
    gtxn: list = field(default_factory=list)  # list of txn dicts (group); txn is gtxn[group_index] if given
    globals: dict = field(default_factory=dict)
    global_state: dict = field(default_factory=dict)  # key(bytes) -> value
    local_state: dict = field(default_factory=dict)  # (account, key) -> value
    tmpl: dict = field(default_factory=dict)
    budget: int = 200000
    # The AVM has no limit on callsub nesting (the opcode budget bounds it; MaxAppCallDepth = 8 is about inner *application* calls).
    # The program descriptions of spec/progsem treat recursion deeper than 8 as failure (a modelling cut-off that keeps the Python
    # evaluator's own recursion small); harnesses that compare against progsem set the same cut-off here, everything else runs without.
    max_call_depth: int | None = None


@dataclass
class Result:
    verdict: str  # approve | reject | fail
    detail: str = ""
    logs: list = field(default_factory=list)
    global_writes: list = field(default_factory=list)
    local_writes: list = field(default_factory=list)
    inner: list = field(default_factory=list)
    final_stack: list = field(default_factory=list)
    scratch: dict = field(default_factory=dict)
    steps: int = 0
    max_stack: int = 0
    trace: list = field(default_factory=list)

    def observable(self):
        if self.verdict == "fail":
            return ("fail",)
        if self.verdict == "reject":
            return ("reject",)
        return ("approve", tuple(self.logs), tuple(self.global_writes), tuple(self.local_writes), tuple(map(repr, self.inner)))


def _u(v):
    if not isinstance(v, int) or isinstance(v, bool):
        raise Panic(f"expected uint64, got {type(v).__name__}")
    return v


def _b(v):
    if not isinstance(v, (bytes, bytearray)):
        raise Panic(f"expected bytes, got {type(v).__name__}")
    return bytes(v)


TXN_DEFAULTS = {"OnCompletion": 0, "ApplicationID": 0, "NumAppArgs": 0, "GroupIndex": 0, "TypeEnum": 6,
                "Sender": b"\x01" * 32, "Fee": 1000, "Amount": 0, "Receiver": b"\x02" * 32, "NumAccounts": 0,
                "Type": b"appl", "RekeyTo": b"\x00" * 32, "Note": b"", "FirstValid": 1, "LastValid": 1000,
                "NumAssets": 0, "NumApplications": 0, "XferAsset": 0, "AssetAmount": 0, "TxID": b"\x07" * 32,
                "Lease": b"\x00" * 32, "CloseRemainderTo": b"\x00" * 32, "AssetReceiver": b"\x03" * 32,
                "AssetSender": b"\x00" * 32, "AssetCloseTo": b"\x00" * 32, "ConfigAsset": 0, "FreezeAsset": 0,
                "NumLogs": 0, "CreatedAssetID": 0, "CreatedApplicationID": 0, "LastLog": b""}
TXN_ARRAY_FIELDS = {"ApplicationArgs": "NumAppArgs", "Accounts": "NumAccounts", "Assets": "NumAssets",
                    "Applications": "NumApplications", "Logs": "NumLogs", "ApprovalProgramPages": None,
                    "ClearStateProgramPages": None}
GLOBAL_DEFAULTS = {"MinTxnFee": 1000, "MinBalance": 100000, "MaxTxnLife": 1000, "ZeroAddress": b"\x00" * 32,
                   "GroupSize": 1, "LogicSigVersion": 10, "Round": 100, "LatestTimestamp": 1700000000,
                   "CurrentApplicationID": 77, "CreatorAddress": b"\x09" * 32,
                   "CurrentApplicationAddress": b"\x0a" * 32, "GroupID": b"\x0b" * 32, "OpcodeBudget": 700,
                   "CallerApplicationID": 0, "CallerApplicationAddress": b"\x00" * 32,
                   "AssetCreateMinBalance": 100000, "AssetOptInMinBalance": 100000, "GenesisHash": b"\x0c" * 32}


def txn_field(t: dict, f: str, idx=None):
    if f in TXN_ARRAY_FIELDS:
        arr = t.get(f, [])
        if idx is None:
            raise Panic(f"array field {f} without index")
        if f == "Accounts":
            if idx == 0:
                return t.get("Sender", TXN_DEFAULTS["Sender"])
            idx -= 1
        if f == "Applications":
            if idx == 0:
                return t.get("ApplicationID", 0)
            idx -= 1
        if idx >= len(arr):
            raise Panic(f"{f}[{idx}] out of range")
        return arr[idx]
    if f == "NumAppArgs":
        return len(t.get("ApplicationArgs", []))
    if f == "NumAccounts":
        return len(t.get("Accounts", []))
    if f == "NumAssets":
        return len(t.get("Assets", []))
    if f == "NumApplications":
        return len(t.get("Applications", []))
    if f == "NumLogs":
        return len(t.get("Logs", []))
    if f in t:
        return t[f]
    if f in TXN_DEFAULTS:
        return TXN_DEFAULTS[f]
    raise Unsupported(f"txn field {f}")


class Machine:
    """Mutable AVM state; `run` executes whole programs, `apply` a single non-branching op (used by exprsem)."""

    def __init__(self, ctx: Ctx | None = None):
        self.ctx = ctx or Ctx()
        self.res = Result("fail")
        self.stack: list = []
        self.scratch: dict = {}
        self.callstack: list = []
        self.intc: list = []
        self.bytec: list = []
        self.itx = {"cur": None, "group": []}

    def apply(self, mnemonic, immediates=()):
        """Execute one op on the current stack. Raises Panic on failure; returns 'approve'/'reject' for `return`."""
        prog = Program(10, [(mnemonic, [str(x) for x in immediates], 0)], {})
        r = _exec(self, prog, single=True)
        if r == "panic":
            raise Panic(self.res.detail)
        return r


def run(teal: str, ctx: Ctx | None = None, trace=False) -> Result:
    m = Machine(ctx)
    try:
        prog = parse(teal)
    except (ValueError, IndexError) as e:
        m.res.detail = f"assembly error: {e}"
        m.res.verdict = "asmerror"
        return m.res
    _exec(m, prog, trace=trace)
    return m.res


def _exec(M: Machine, prog: Program, single=False, trace=False):
    ctx, res = M.ctx, M.res
    ops, labels = prog.ops, prog.labels
    stack, scratch, callstack, intc, bytec, itx = M.stack, M.scratch, M.callstack, M.intc, M.bytec, M.itx
    pc = 0
    steps = 0
    status = None
    cur_txn = ctx.txn if ctx.txn else (ctx.gtxn[0] if ctx.gtxn else {})
    group = ctx.gtxn if ctx.gtxn else [cur_txn]

    def push(v):
        if isinstance(v, int):
            if v < 0 or v >= U64:
                raise Panic("uint64 out of range")
        else:
            if len(v) > MAX_BYTES:
                raise Panic("bytes too long")
        stack.append(v)
        if len(stack) > 1000:
            raise Panic("stack overflow")

    def pop():
        if not stack:
            raise Panic("stack underflow")
        if callstack and callstack[-1][1] is not None:
            pass
        return stack.pop()

    def label(l):
        if l not in labels:
            raise Panic(f"undefined label {l}")
        return labels[l]

    try:
        while True:
            if pc >= len(ops) and single:
                break
            if pc >= len(ops):
                # fell off the end: top of stack decides
                if callstack:
                    raise Panic("fell off end inside subroutine")
                if len(stack) != 1:
                    raise Panic(f"stack has {len(stack)} items at end")
                v = _u(stack[-1])
                res.verdict = "approve" if v != 0 else "reject"
                break
            m, im, ln = ops[pc]
            steps += 1
            if trace:
                res.trace.append((pc, m, list(im), list(stack)))
            if steps > ctx.budget:
                raise Panic("budget exceeded")
            res.max_stack = max(res.max_stack, len(stack))
            pc += 1
            if m == "int" or m == "pushint":
                push(parse_int_literal(im[0], ctx.tmpl))
            elif m == "byte" or m == "pushbytes":
                if im[0].startswith("TMPL_"):
                    if im[0] in ctx.tmpl:
                        push(ctx.tmpl[im[0]])
                    else:
                        raise Unsupported("template bytes")
                else:
                    push(parse_bytes_literal(im)[0])
            elif m == "addr":
                if im[0].startswith("TMPL_"):
                    raise Unsupported("template addr")
                raw = base64.b32decode(im[0] + "======")
                if len(raw) != 36 or hashlib.new("sha512_256", raw[:32]).digest()[-4:] != raw[32:]:
                    raise ValueError("bad address")
                push(raw[:32])
            elif m == "method":
                # the reference assembler hashes the text between the quotes as it stands (no escape processing)
                sig = im[0][1:-1].encode("utf-8") if im[0].startswith('"') and im[0].endswith('"') and len(im[0]) >= 2 else None
                if sig is None:
                    raise ValueError("method needs a quoted signature")
                push(hashlib.new("sha512_256", sig).digest()[:4])
            elif m == "intcblock":
                intc[:] = [parse_int_literal(t, ctx.tmpl) for t in im]
            elif m == "bytecblock":
                del bytec[:]
                j = 0
                while j < len(im):
                    if im[j].startswith("TMPL_"):
                        bytec.append(ctx.tmpl.get(im[j], im[j].encode()))
                        j += 1
                        continue
                    b, k = parse_bytes_literal(im[j:])
                    bytec.append(b)
                    j += k
            elif m in ("intc", "intc_0", "intc_1", "intc_2", "intc_3"):
                i = int(im[0]) if m == "intc" else int(m[-1])
                if i >= len(intc) or i > 255:
                    raise Panic("intc index")
                push(intc[i])
            elif m in ("bytec", "bytec_0", "bytec_1", "bytec_2", "bytec_3"):
                i = int(im[0]) if m == "bytec" else int(m[-1])
                if i >= len(bytec) or i > 255:
                    raise Panic("bytec index")
                push(bytec[i])
            elif m == "pop":
                pop()
            elif m == "popn":
                for _ in range(int(im[0])):
                    pop()
            elif m == "dup":
                v = pop(); push(v); push(v)
            elif m == "dupn":
                v = pop(); push(v)
                for _ in range(int(im[0])):
                    push(v)
            elif m == "dup2":
                b = pop(); a = pop(); push(a); push(b); push(a); push(b)
            elif m == "swap":
                b = pop(); a = pop(); push(b); push(a)
            elif m == "dig":
                n = int(im[0])
                if n >= len(stack):
                    raise Panic("dig underflow")
                push(stack[-1 - n])
            elif m == "bury":
                n = int(im[0])
                v = pop()
                if n == 0 or n - 1 >= len(stack):
                    raise Panic("bury")
                stack[-n] = v
            elif m == "cover":
                n = int(im[0])
                if n >= len(stack):
                    raise Panic("cover underflow")
                v = stack.pop(); stack.insert(len(stack) - n, v)
            elif m == "uncover":
                n = int(im[0])
                if n >= len(stack):
                    raise Panic("uncover underflow")
                v = stack.pop(len(stack) - 1 - n); stack.append(v)
            elif m == "select":
                c = _u(pop()); b = pop(); a = pop(); push(b if c != 0 else a)
            elif m == "load":
                n = int(im[0])
                if n > 255:
                    raise ValueError("load immediate")
                push(scratch.get(n, 0))
            elif m == "store":
                n = int(im[0])
                if n > 255:
                    raise ValueError("store immediate")
                scratch[n] = pop()
            elif m == "loads":
                n = _u(pop())
                if n > 255:
                    raise Panic("loads index")
                push(scratch.get(n, 0))
            elif m == "stores":
                v = pop(); n = _u(pop())
                if n > 255:
                    raise Panic("stores index")
                scratch[n] = v
            elif m in ("+", "-", "*", "/", "%", "<", ">", "<=", ">=", "&&", "||", "|", "&", "^", "exp", "shl", "shr"):
                b = _u(pop()); a = _u(pop())
                if m == "+":
                    r = a + b
                elif m == "-":
                    r = a - b
                elif m == "*":
                    r = a * b
                elif m == "/":
                    if b == 0:
                        raise Panic("div by zero")
                    r = a // b
                elif m == "%":
                    if b == 0:
                        raise Panic("mod by zero")
                    r = a % b
                elif m == "<":
                    r = int(a < b)
                elif m == ">":
                    r = int(a > b)
                elif m == "<=":
                    r = int(a <= b)
                elif m == ">=":
                    r = int(a >= b)
                elif m == "&&":
                    r = int(a != 0 and b != 0)
                elif m == "||":
                    r = int(a != 0 or b != 0)
                elif m == "|":
                    r = a | b
                elif m == "&":
                    r = a & b
                elif m == "^":
                    r = a ^ b
                elif m == "exp":
                    if a == 0 and b == 0:
                        raise Panic("0^0")
                    # (no bignum detour: for a >= 2 any exponent >= 64 overflows uint64)
                    r = a if a in (0, 1) else (U64 if b >= 64 else a ** b)
                elif m == "shl":
                    if b >= 64:
                        raise Panic("shl")
                    r = (a << b) % U64
                elif m == "shr":
                    if b >= 64:
                        raise Panic("shr")
                    r = a >> b
                if r < 0 or r >= U64:
                    raise Panic("arithmetic overflow")
                push(r)
            elif m in ("==", "!="):
                b = pop(); a = pop()
                if isinstance(a, int) != isinstance(b, int):
                    raise Panic("== type mismatch")
                push(int((a == b) == (m == "==")))
            elif m == "!":
                push(int(_u(pop()) == 0))
            elif m == "~":
                push(_u(pop()) ^ (U64 - 1))
            elif m == "sqrt":
                import math
                push(math.isqrt(_u(pop())))
            elif m == "bitlen":
                v = pop()
                push(v.bit_length() if isinstance(v, int) else int.from_bytes(v, "big").bit_length())
            elif m == "mulw":
                b = _u(pop()); a = _u(pop()); p = a * b; push(p >> 64); push(p % U64)
            elif m == "addw":
                b = _u(pop()); a = _u(pop()); p = a + b; push(p >> 64); push(p % U64)
            elif m == "divmodw":
                dl = _u(pop()); dh = _u(pop()); nl = _u(pop()); nh = _u(pop())
                N = (nh << 64) | nl; D = (dh << 64) | dl
                if D == 0:
                    raise Panic("divmodw by zero")
                q, r = divmod(N, D)
                push(q >> 64); push(q % U64); push(r >> 64); push(r % U64)
            elif m == "divw":
                # A,B / C : the 128-bit value A*2^64 + B divided by C; fails on C == 0 or a quotient that does not fit uint64
                c = _u(pop()); lo = _u(pop()); hi = _u(pop())
                if c == 0:
                    raise Panic("divw by zero")
                q = ((hi << 64) | lo) // c
                if q >= U64:
                    raise Panic("divw overflow")
                push(q)
            elif m == "expw":
                b = _u(pop()); a = _u(pop())
                if a == 0 and b == 0:
                    raise Panic("0^0")
                p = a if a in (0, 1) else (2 ** 128 if b >= 128 else a ** b)
                if p >= 2 ** 128:
                    raise Panic("expw overflow")
                push(p >> 64); push(p % U64)
            elif m == "len":
                push(len(_b(pop())))
            elif m == "itob":
                push(_u(pop()).to_bytes(8, "big"))
            elif m == "btoi":
                v = _b(pop())
                if len(v) > 8:
                    raise Panic("btoi too long")
                push(int.from_bytes(v, "big"))
            elif m == "concat":
                b = _b(pop()); a = _b(pop())
                if len(a) + len(b) > MAX_BYTES:
                    raise Panic("concat too long")
                push(a + b)
            elif m == "substring":
                s, e = int(im[0]), int(im[1])
                if s > 255 or e > 255:
                    raise ValueError("substring immediates")
                v = _b(pop())
                if s > e or e > len(v):
                    raise Panic("substring range")
                push(v[s:e])
            elif m == "substring3":
                e = _u(pop()); s = _u(pop()); v = _b(pop())
                if s > e or e > len(v):
                    raise Panic("substring3 range")
                push(v[s:e])
            elif m == "extract":
                s, l = int(im[0]), int(im[1])
                if s > 255 or l > 255:
                    raise ValueError("extract immediates")
                v = _b(pop())
                if l == 0:
                    if s > len(v):
                        raise Panic("extract range")
                    push(v[s:])
                else:
                    if s + l > len(v):
                        raise Panic("extract range")
                    push(v[s:s + l])
            elif m == "extract3":
                l = _u(pop()); s = _u(pop()); v = _b(pop())
                if s + l > len(v):
                    raise Panic("extract3 range")
                push(v[s:s + l])
            elif m in ("extract_uint16", "extract_uint32", "extract_uint64"):
                w = {"extract_uint16": 2, "extract_uint32": 4, "extract_uint64": 8}[m]
                s = _u(pop()); v = _b(pop())
                if s + w > len(v):
                    raise Panic("extract_uint range")
                push(int.from_bytes(v[s:s + w], "big"))
            elif m == "replace2":
                s = int(im[0]); b = _b(pop()); a = _b(pop())
                if s + len(b) > len(a):
                    raise Panic("replace2 range")
                push(a[:s] + b + a[s + len(b):])
            elif m == "replace3":
                b = _b(pop()); s = _u(pop()); a = _b(pop())
                if s + len(b) > len(a):
                    raise Panic("replace3 range")
                push(a[:s] + b + a[s + len(b):])
            elif m == "getbit":
                i = _u(pop()); v = pop()
                if isinstance(v, int):
                    if i >= 64:
                        raise Panic("getbit")
                    push((v >> i) & 1)
                else:
                    if i >= 8 * len(v):
                        raise Panic("getbit range")
                    push((v[i // 8] >> (7 - i % 8)) & 1)
            elif m == "setbit":
                bit = _u(pop()); i = _u(pop()); v = pop()
                if bit > 1:
                    raise Panic("setbit value")
                if isinstance(v, int):
                    if i >= 64:
                        raise Panic("setbit")
                    push((v & ~(1 << i)) | (bit << i))
                else:
                    if i >= 8 * len(v):
                        raise Panic("setbit range")
                    ba = bytearray(v)
                    mask = 1 << (7 - i % 8)
                    ba[i // 8] = (ba[i // 8] & ~mask) | (mask if bit else 0)
                    push(bytes(ba))
            elif m == "getbyte":
                i = _u(pop()); v = _b(pop())
                if i >= len(v):
                    raise Panic("getbyte range")
                push(v[i])
            elif m == "setbyte":
                x = _u(pop()); i = _u(pop()); v = _b(pop())
                if i >= len(v) or x > 255:
                    raise Panic("setbyte range")
                ba = bytearray(v); ba[i] = x; push(bytes(ba))
            elif m == "bzero":
                n = _u(pop())
                if n > MAX_BYTES:
                    raise Panic("bzero")
                push(bytes(n))
            elif m in ("b+", "b-", "b*", "b/", "b%", "b<", "b>", "b<=", "b>=", "b==", "b!=", "b|", "b&", "b^"):
                bb = _b(pop()); aa = _b(pop())
                if len(aa) > 64 or len(bb) > 64:
                    raise Panic("byte math operand too long")
                a, b = int.from_bytes(aa, "big"), int.from_bytes(bb, "big")
                if m in ("b|", "b&", "b^"):
                    L = max(len(aa), len(bb))
                    r = {"b|": a | b, "b&": a & b, "b^": a ^ b}[m]
                    push(r.to_bytes(L, "big"))
                elif m in ("b<", "b>", "b<=", "b>=", "b==", "b!="):
                    push(int({"b<": a < b, "b>": a > b, "b<=": a <= b, "b>=": a >= b, "b==": a == b, "b!=": a != b}[m]))
                else:
                    if m == "b+":
                        r = a + b
                    elif m == "b-":
                        if b > a:
                            raise Panic("b- underflow")
                        r = a - b
                    elif m == "b*":
                        r = a * b
                    elif m == "b/":
                        if b == 0:
                            raise Panic("b/ zero")
                        r = a // b
                    else:
                        if b == 0:
                            raise Panic("b% zero")
                        r = a % b
                    out = r.to_bytes((r.bit_length() + 7) // 8, "big")
                    if len(out) > 128:
                        raise Panic("byte math result too long")
                    push(out)
            elif m == "b~":
                v = _b(pop()); push(bytes(x ^ 0xFF for x in v))
            elif m == "bsqrt":
                import math
                v = _b(pop()); r = math.isqrt(int.from_bytes(v, "big")); push(r.to_bytes((r.bit_length() + 7) // 8, "big"))
            elif m == "sha256":
                push(hashlib.sha256(_b(pop())).digest())
            elif m == "sha512_256":
                push(hashlib.new("sha512_256", _b(pop())).digest())
            elif m == "sha3_256":
                push(hashlib.sha3_256(_b(pop())).digest())
            elif m == "keccak256":
                raise Unsupported("keccak256")
            elif m == "assert":
                if _u(pop()) == 0:
                    raise Panic("assert failed")
            elif m == "err":
                raise Panic("err")
            elif m == "return":
                v = _u(pop())
                res.verdict = "approve" if v != 0 else "reject"
                status = res.verdict
                break
            elif m == "b":
                pc = label(im[0])
            elif m == "bnz":
                if _u(pop()) != 0:
                    pc = label(im[0])
            elif m == "bz":
                if _u(pop()) == 0:
                    pc = label(im[0])
            elif m == "callsub":
                callstack.append([pc, None, 0, 0, len(stack)])
                pc = label(im[0])
                if ctx.max_call_depth is not None and len(callstack) > ctx.max_call_depth:
                    raise Panic("call stack depth (modelling cut-off)")
            elif m == "proto":
                a, r = int(im[0]), int(im[1])
                if not callstack or callstack[-1][1] is not None:
                    raise Panic("proto misplaced")
                if len(stack) < a:
                    raise Panic("proto: not enough args")
                callstack[-1][1] = len(stack)
                callstack[-1][2], callstack[-1][3] = a, r
            elif m == "frame_dig":
                n = int(im[0])
                if not callstack or callstack[-1][1] is None:
                    raise Panic("frame_dig without proto")
                i = callstack[-1][1] + n
                if i < 0 or i >= len(stack) or n < -callstack[-1][2]:
                    raise Panic("frame_dig range")
                push(stack[i])
            elif m == "frame_bury":
                n = int(im[0])
                if not callstack or callstack[-1][1] is None:
                    raise Panic("frame_bury without proto")
                v = pop()
                i = callstack[-1][1] + n
                if i < 0 or i >= len(stack) or n < -callstack[-1][2]:
                    raise Panic("frame_bury range")
                stack[i] = v
            elif m == "retsub":
                if not callstack:
                    raise Panic("retsub with empty call stack")
                rpc, fp, a, r, _h = callstack.pop()
                if fp is not None:
                    if len(stack) < fp + r:
                        raise Panic("retsub: not enough return values")
                    # go-algorand opRetSub: the R values that sit directly above the frame pointer (frame slots 0..R-1) are moved to
                    # where the arguments started; everything above them (locals) is discarded.  PyTeal relies on this: results are
                    # buried into slot 0 (`frame_bury 0; retsub` with locals still above) - see tests/integration/teal/roundtrip/*_v8.teal
                    rets = stack[fp:fp + r]
                    del stack[fp - a:]
                    stack.extend(rets)
                pc = rpc
            elif m == "arg":
                n = int(im[0])
                if ctx.mode != "Signature":
                    raise Panic("arg in app mode")
                if n > 255:
                    raise ValueError("arg immediate")
                if n >= len(ctx.args):
                    raise Panic("arg index")
                push(ctx.args[n])
            elif m in ("arg_0", "arg_1", "arg_2", "arg_3"):
                n = int(m[-1])
                if n >= len(ctx.args):
                    raise Panic("arg index")
                push(ctx.args[n])
            elif m == "args":
                n = _u(pop())
                if n >= len(ctx.args):
                    raise Panic("args index")
                push(ctx.args[n])
            elif m == "txn":
                push(txn_field(cur_txn, im[0], int(im[1]) if len(im) > 1 else None))
            elif m == "txna":
                if int(im[1]) > 255:
                    raise ValueError("txna immediate")
                push(txn_field(cur_txn, im[0], int(im[1])))
            elif m == "txnas":
                push(txn_field(cur_txn, im[0], _u(pop())))
            elif m == "gtxn":
                g = int(im[0])
                if g > 255:
                    raise ValueError("gtxn immediate")
                if g >= len(group):
                    raise Panic("gtxn index")
                push(txn_field(group[g], im[1], int(im[2]) if len(im) > 2 else None))
            elif m == "gtxna":
                g = int(im[0])
                if g >= len(group):
                    raise Panic("gtxn index")
                push(txn_field(group[g], im[1], int(im[2])))
            elif m == "gtxns":
                g = _u(pop())
                if g >= len(group):
                    raise Panic("gtxns index")
                push(txn_field(group[g], im[0], int(im[1]) if len(im) > 1 else None))
            elif m == "gtxnsa":
                g = _u(pop())
                if g >= len(group):
                    raise Panic("gtxnsa index")
                push(txn_field(group[g], im[0], int(im[1])))
            elif m == "gtxnas":
                i = _u(pop()); g = int(im[0])
                if g >= len(group):
                    raise Panic("gtxnas index")
                push(txn_field(group[g], im[1], i))
            elif m == "gtxnsas":
                i = _u(pop()); g = _u(pop())
                if g >= len(group):
                    raise Panic("gtxnsas index")
                push(txn_field(group[g], im[0], i))
            elif m == "global":
                f = im[0]
                if f == "GroupSize":
                    push(len(group))
                elif f in ctx.globals:
                    push(ctx.globals[f])
                elif f in GLOBAL_DEFAULTS:
                    push(GLOBAL_DEFAULTS[f])
                else:
                    raise Unsupported("global " + f)
            elif m == "log":
                v = _b(pop())
                if len(res.logs) >= 32:
                    raise Panic("too many logs")
                res.logs.append(v)
            elif m == "app_global_put":
                v = pop(); k = _b(pop())
                ctx.global_state[k] = v
                res.global_writes.append(("put", k, v))
            elif m == "app_global_get":
                k = _b(pop()); push(ctx.global_state.get(k, 0))
            elif m == "app_global_del":
                k = _b(pop()); ctx.global_state.pop(k, None); res.global_writes.append(("del", k))
            elif m == "app_global_get_ex":
                k = _b(pop()); a = pop()
                if k in ctx.global_state:
                    push(ctx.global_state[k]); push(1)
                else:
                    push(0); push(0)
            elif m == "app_local_put":
                v = pop(); k = _b(pop()); a = pop()
                ctx.local_state[(repr(a), k)] = v
                res.local_writes.append(("put", repr(a), k, v))
            elif m == "app_local_get":
                k = _b(pop()); a = pop(); push(ctx.local_state.get((repr(a), k), 0))
            elif m == "app_local_del":
                k = _b(pop()); a = pop(); ctx.local_state.pop((repr(a), k), None)
                res.local_writes.append(("del", repr(a), k))
            elif m == "itxn_begin":
                itx["cur"] = []
                itx["group"] = []
            elif m == "itxn_next":
                if itx["cur"] is None:
                    raise Panic("itxn_next without begin")
                itx["group"].append(itx["cur"]); itx["cur"] = []
            elif m == "itxn_field":
                if itx["cur"] is None:
                    raise Panic("itxn_field without begin")
                itx["cur"].append((im[0], pop()))
            elif m == "itxn_submit":
                if itx["cur"] is None:
                    raise Panic("itxn_submit without begin")
                itx["group"].append(itx["cur"])
                res.inner.append(itx["group"])
                itx["cur"] = None; itx["group"] = []
            else:
                raise Unsupported(f"op {m}")
    except Panic as e:
        res.verdict = "fail"
        res.detail = f"{e} at line {ops[pc - 1][2] if 0 < pc <= len(ops) else '?'}: {ops[pc - 1][0] if 0 < pc <= len(ops) else ''}"
        status = "panic"
    except ValueError as e:
        res.verdict = "asmerror"
        res.detail = f"assembly error: {e}"
        status = "panic"
    res.final_stack = list(stack)
    res.scratch = dict(scratch)
    res.steps += steps
    return status


def _canary():
    """Run at import: the reference interpreter must give the specified outcome on a handful of programs that exercise each way a
    program can end (approve / reject / fail) - an interpreter that approves everything would make every equivalence check pass."""
    P = "#pragma version 8\n"
    cases = [
        (P + "int 2\nint 3\n+\nitob\nlog\nint 1\nreturn\n", ("approve", [(5).to_bytes(8, "big")])),
        (P + "int 0\nreturn\n", ("reject", [])),
        (P + "err\n", ("fail", [])),
        (P + "int 1\nint 0\n/\nreturn\n", ("fail", [])),
        (P + "int 18446744073709551615\nint 1\n+\nreturn\n", ("fail", [])),
        (P + "int 3\nint 5\n-\nreturn\n", ("fail", [])),
        (P + 'byte "ab"\nbyte 0x63\nconcat\nlog\nint 1\nreturn\n', ("approve", [b"abc"])),
        (P + "int 0\nbnz skip\nint 7\nitob\nlog\nskip:\nint 1\nreturn\n", ("approve", [(7).to_bytes(8, "big")])),
        (P + "int 1\nbnz skip\nint 7\nitob\nlog\nskip:\nint 1\nreturn\n", ("approve", [])),
        (P + "int 4\ncallsub dbl\nitob\nlog\nint 1\nreturn\ndbl:\nint 2\n*\nretsub\n", ("approve", [(8).to_bytes(8, "big")])),
        (P + "int 9\nstore 3\nload 3\nload 4\n+\nitob\nlog\nint 1\nreturn\n", ("approve", [(9).to_bytes(8, "big")])),
        # retsub after proto: the result is frame slot 0, the local above it is discarded
        (P + "int 4\ncallsub f\nitob\nlog\nint 1\nreturn\nf:\nproto 1 1\nint 0\nint 99\nframe_dig -1\nint 1\n+\nframe_bury 0\nretsub\n", ("approve", [(5).to_bytes(8, "big")])),
        (P + "int 4\nint 6\ncallsub g\n+\nitob\nlog\nint 1\nreturn\ng:\nproto 1 1\nframe_dig -1\nint 2\n*\nretsub\n", ("approve", [(16).to_bytes(8, "big")])),
        (P + 'byte "a"\nint 1\n+\nreturn\n', ("fail", [])),
        (P + "int 1\nint 2\nreturn\n", ("approve", [])),
        (P + "int 1\nint 4\nint 8\ndivw\nitob\nlog\nint 1\nreturn\n", ("approve", [((2 ** 64 + 4) // 8).to_bytes(8, "big")])),
        (P + "int 8\nint 0\nint 8\ndivw\nreturn\n", ("fail", [])),
        (P + "+\nint 1\nreturn\n", ("fail", [])),
    ]
    for teal, (verdict, logs) in cases:
        r = run(teal, Ctx())
        if r.verdict != verdict or (verdict == "approve" and list(r.logs) != logs):
            raise RuntimeError(f"spec.avm canary: {teal!r} gives {(r.verdict, r.logs, r.detail)}, the specification says {(verdict, logs)}")


_canary()
