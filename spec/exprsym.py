"""Symbolic meaning (z3, mathematical uint64) of a small class of PyTeal expression trees: integer constants,
named integer constants, Txn.on_completion / application_id / NumAppArgs reads, ==, !=, And, Or, Not.
Used to prove run-time conditions produced by real PyTeal code (router guards) for all transaction contexts.
The meaning of each operator is the AVM op the node carries (by mnemonic), evaluated left to right, all operands."""
from __future__ import annotations

import z3

NAMED = {"NoOp": 0, "OptIn": 1, "CloseOut": 2, "ClearState": 3, "UpdateApplication": 4, "DeleteApplication": 5,
         "unknown": 0, "pay": 1, "keyreg": 2, "acfg": 3, "axfer": 4, "afrz": 5, "appl": 6}


class NotInFragment(Exception):
    pass


def b2i(b):
    return z3.If(b, z3.IntVal(1), z3.IntVal(0))


def sym(e, env):
    """env: dict TEAL txn field name -> z3 Int. Returns z3 Int (uint64 value)."""
    import pyteal as pt
    from pyteal.ast.int import EnumInt
    from pyteal.ast.txn import TxnExpr
    from pyteal.ast.binaryexpr import BinaryExpr
    from pyteal.ast.naryexpr import NaryExpr
    from pyteal.ast.unaryexpr import UnaryExpr
    if isinstance(e, int) and not isinstance(e, bool):
        return z3.IntVal(e)
    if isinstance(e, pt.Int):
        return z3.IntVal(e.value)
    if isinstance(e, EnumInt):
        return z3.IntVal(NAMED[e.name])
    if isinstance(e, TxnExpr):
        name = e.field.arg_name
        if str(e.op) != "txn" or name not in env:
            raise NotInFragment(f"txn read {e}")
        return env[name]
    if isinstance(e, BinaryExpr):
        a, b = sym(e.argLeft, env), sym(e.argRight, env)
        m = str(e.op)
        if m == "==":
            return b2i(a == b)
        if m == "!=":
            return b2i(a != b)
        if m == "<":
            return b2i(a < b)
        if m == ">":
            return b2i(a > b)
        raise NotInFragment(m)
    if isinstance(e, NaryExpr):
        vals = [sym(x, env) for x in e.args]
        m = str(e.op)
        acc = vals[0]
        for v in vals[1:]:
            if m == "&&":
                acc = b2i(z3.And(acc != 0, v != 0))
            elif m == "||":
                acc = b2i(z3.Or(acc != 0, v != 0))
            else:
                raise NotInFragment(m)
        return acc
    if isinstance(e, UnaryExpr) and str(e.op) == "!":
        return b2i(sym(e.arg, env) == 0)
    raise NotInFragment(type(e).__name__)
