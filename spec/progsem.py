"""A small program description language mirroring PyTeal's documented constructs.

  build(prog)      -> real PyTeal expression, using only public constructors
  den(prog, ctx)   -> outcome of evaluating the description directly (documented source semantics)

The description is the generator's own data; `den` never looks at a PyTeal object, so the oracle is
independent of pyteal's internals (trusted specification, DESIGN.md 2.3).  Run-time meaning of a primitive
operator is the AVM op the PyTeal documentation names for it (applied through spec.avm.Machine.apply).

Expressions e (typed uint64 "u" or bytes "b"):
  ("int", n) ("bytes", b) ("str", s)
  ("un", op, e) ("bin", op, e1, e2) ("tern", op, e1, e2, e3) ("nary", op, [e...])
  ("ife", c, e1, e2) ("conde", [(c, e)...])      value-typed If / Cond
  ("load", var) ("txn", field) ("txna", field, i) ("global", field) ("arg", i) ("gget", ekey)
  ("substring", s, a, b) ("extract", s, a, l) ("suffix", s, a)
  ("wideratio", [e...], [e...]) ("call", fname, [args]) ("seqv", [stmts], e)
Statements s (type none):
  ("store", var, e) ("pop", e) ("log", e) ("gput", ek, ev) ("gdel", ek) ("assert", [c...], comment|None)
  ("seq", [s...]) ("ifs", c, s, s|None) ("conds", [(c, s)...]) ("while", c, s) ("for", s_init, c, s_step, s)
  ("break",) ("continue",) ("return", e|None) ("approve",) ("reject",) ("exit", e)
  ("calls", fname, [args]) ("comment", text, s) ("nonce", base, text, s)   -- s may also be an expression in Comment
Arguments of calls: expressions, or ("ref", var) for ScratchVar by-reference parameters.
"""
from __future__ import annotations

from dataclasses import dataclass, field

from . import avm

# op tables: name -> (PyTeal public constructor, TEAL mnemonic, operand types, result type, min version)
UN = {
    "not": ("Not", "!", "u", "u", 2), "bitnot": ("BitwiseNot", "~", "u", "u", 2), "itob": ("Itob", "itob", "u", "b", 2),
    "btoi": ("Btoi", "btoi", "b", "u", 2), "len": ("Len", "len", "b", "u", 2), "sqrt": ("Sqrt", "sqrt", "u", "u", 4),
    "bitlen": ("BitLen", "bitlen", "u", "u", 4), "sha256": ("Sha256", "sha256", "b", "b", 2),
    "sha512_256": ("Sha512_256", "sha512_256", "b", "b", 2), "byteszero": ("BytesZero", "bzero", "u", "b", 4),
    "bytesnot": ("BytesNot", "b~", "b", "b", 4),
}
BIN = {
    "minus": ("Minus", "-", "uu", "u", 2), "div": ("Div", "/", "uu", "u", 2), "mod": ("Mod", "%", "uu", "u", 2),
    "exp": ("Exp", "exp", "uu", "u", 4), "lt": ("Lt", "<", "uu", "u", 2), "gt": ("Gt", ">", "uu", "u", 2),
    "le": ("Le", "<=", "uu", "u", 2), "ge": ("Ge", ">=", "uu", "u", 2), "eq": ("Eq", "==", "uu", "u", 2),
    "neq": ("Neq", "!=", "uu", "u", 2), "beq": ("Eq", "==", "bb", "u", 2), "bneq": ("Neq", "!=", "bb", "u", 2),
    "bitand": ("BitwiseAnd", "&", "uu", "u", 2), "bitor": ("BitwiseOr", "|", "uu", "u", 2),
    "bitxor": ("BitwiseXor", "^", "uu", "u", 2), "shl": ("ShiftLeft", "shl", "uu", "u", 4),
    "shr": ("ShiftRight", "shr", "uu", "u", 4), "getbit_u": ("GetBit", "getbit", "uu", "u", 3),
    "getbit_b": ("GetBit", "getbit", "bu", "u", 3), "getbyte": ("GetByte", "getbyte", "bu", "u", 3),
    "bytesadd": ("BytesAdd", "b+", "bb", "b", 4), "bytesminus": ("BytesMinus", "b-", "bb", "b", 4),
    "bytesmul": ("BytesMul", "b*", "bb", "b", 4), "bytesdiv": ("BytesDiv", "b/", "bb", "b", 4),
    "bytesmod": ("BytesMod", "b%", "bb", "b", 4), "byteslt": ("BytesLt", "b<", "bb", "u", 4),
    "bytesgt": ("BytesGt", "b>", "bb", "u", 4), "bytesle": ("BytesLe", "b<=", "bb", "u", 4),
    "bytesge": ("BytesGe", "b>=", "bb", "u", 4), "byteseq": ("BytesEq", "b==", "bb", "u", 4),
    "bytesneq": ("BytesNeq", "b!=", "bb", "u", 4), "bytesand": ("BytesAnd", "b&", "bb", "b", 4),
    "bytesor": ("BytesOr", "b|", "bb", "b", 4), "bytesxor": ("BytesXor", "b^", "bb", "b", 4),
    "extract_uint16": ("ExtractUint16", "extract_uint16", "bu", "u", 5),
    "extract_uint32": ("ExtractUint32", "extract_uint32", "bu", "u", 5),
    "extract_uint64": ("ExtractUint64", "extract_uint64", "bu", "u", 5),
}
TERN = {
    "setbit_u": ("SetBit", "setbit", "uuu", "u", 3), "setbit_b": ("SetBit", "setbit", "buu", "b", 3),
    "setbyte": ("SetByte", "setbyte", "buu", "b", 3),
}
NARY = {
    "add": ("Add", "+", "u", "u", 2), "mul": ("Mul", "*", "u", "u", 2), "and": ("And", "&&", "u", "u", 2),
    "or": ("Or", "||", "u", "u", 2), "concat": ("Concat", "concat", "b", "b", 2),
}
TXN_FIELDS = {  # name -> (PyTeal accessor on Txn, TEAL field, type)
    "sender": ("sender", "Sender", "b"), "fee": ("fee", "Fee", "u"), "amount": ("amount", "Amount", "u"),
    "on_completion": ("on_completion", "OnCompletion", "u"), "application_id": ("application_id", "ApplicationID", "u"),
    "note": ("note", "Note", "b"), "type_enum": ("type_enum", "TypeEnum", "u"), "group_index": ("group_index", "GroupIndex", "u"),
    "first_valid": ("first_valid", "FirstValid", "u"), "receiver": ("receiver", "Receiver", "b"),
}
GLOBAL_FIELDS = {
    "min_txn_fee": ("min_txn_fee", "MinTxnFee", "u", 2), "group_size": ("group_size", "GroupSize", "u", 2),
    "zero_address": ("zero_address", "ZeroAddress", "b", 2), "round": ("round", "Round", "u", 2),
    "latest_timestamp": ("latest_timestamp", "LatestTimestamp", "u", 2),
    "current_application_id": ("current_application_id", "CurrentApplicationID", "u", 2),
}


@dataclass
class Sub:
    name: str
    params: list  # [("v"|"ref", pname, "u"|"b")]
    ret: str  # "none" | "u" | "b"
    locals: list  # [(name, "u"|"b")]
    body: tuple  # statement (for ret != none may use ("return", e)); value subroutines may end with an expression via ("return", e)


@dataclass
class Prog:
    main: tuple
    subs: dict = field(default_factory=dict)  # name -> Sub
    gvars: list = field(default_factory=list)  # [(name, "u"|"b", slot_id|None)]  ScratchVars created at top level
    mode: str = "Application"
    display_names: dict = field(default_factory=dict)  # subroutine name -> name text given to pt.Subroutine(name=...)


# ======================================================================= build ===========================
class Builder:
    def __init__(self, prog: Prog):
        import pyteal as pt
        self.pt = pt
        self.prog = prog
        self.gvars = {}
        self.fns = {}
        for name, ty, slot in prog.gvars:
            t = pt.TealType.uint64 if ty == "u" else pt.TealType.bytes
            self.gvars[name] = pt.ScratchVar(t, slot) if slot is not None else pt.ScratchVar(t)
        for name in prog.subs:
            self._declare(name)

    def _declare(self, name):
        pt = self.pt
        sub: Sub = self.prog.subs[name]
        rt = {"none": pt.TealType.none, "u": pt.TealType.uint64, "b": pt.TealType.bytes}[sub.ret]
        params = ", ".join(f"{p}: pt.ScratchVar" if k == "ref" else f"{p}: pt.Expr" for k, p, _ in sub.params)
        pnames = ", ".join(p for _, p, _ in sub.params)
        src = f"def {name}({params}):\n    return _body({{{', '.join(repr(p) + ': ' + p for _, p, _ in sub.params)}}})\n"
        builder = self

        def _body(pvals):
            env = dict(builder.gvars)
            for (k, p, ty) in sub.params:
                env[p] = ("param", pvals[p]) if k == "v" else pvals[p]
            for ln, ty in sub.locals:
                env[ln] = pt.ScratchVar(pt.TealType.uint64 if ty == "u" else pt.TealType.bytes)
            return builder.stmt(sub.body, env)

        ns = {"pt": pt, "_body": _body}
        exec(compile(src, f"<sub {name}>", "exec", dont_inherit=True), ns)
        self.fns[name] = pt.Subroutine(rt, name=self.prog.display_names.get(name, name))(ns[name])

    def build(self):
        return self.stmt(self.prog.main, dict(self.gvars))

    def expr(self, e, env):
        pt = self.pt
        k = e[0]
        if k == "int":
            return pt.Int(e[1])
        if k == "bytes":
            return pt.Bytes(e[1])
        if k == "str":
            return pt.Bytes(e[1])
        if k == "un":
            return getattr(pt, UN[e[1]][0])(self.expr(e[2], env))
        if k == "bin":
            return getattr(pt, BIN[e[1]][0])(self.expr(e[2], env), self.expr(e[3], env))
        if k == "tern":
            return getattr(pt, TERN[e[1]][0])(self.expr(e[2], env), self.expr(e[3], env), self.expr(e[4], env))
        if k == "nary":
            return getattr(pt, NARY[e[1]][0])(*[self.expr(x, env) for x in e[2]])
        if k == "ife":
            return pt.If(self.expr(e[1], env), self.expr(e[2], env), self.expr(e[3], env))
        if k == "conde":
            return pt.Cond(*[[self.expr(c, env), self.expr(v, env)] for c, v in e[1]])
        if k == "load":
            v = env[e[1]]
            if isinstance(v, tuple) and v[0] == "param":
                return v[1]
            return v.load()
        if k == "txn":
            return getattr(pt.Txn, TXN_FIELDS[e[1]][0])()
        if k == "txna":
            return pt.Txn.application_args[e[2]]
        if k == "global":
            return getattr(pt.Global, GLOBAL_FIELDS[e[1]][0])()
        if k == "arg":
            return pt.Arg(e[1])
        if k == "gget":
            return pt.App.globalGet(self.expr(e[1], env))
        if k == "substring":
            return pt.Substring(self.expr(e[1], env), self.expr(e[2], env), self.expr(e[3], env))
        if k == "extract":
            return pt.Extract(self.expr(e[1], env), self.expr(e[2], env), self.expr(e[3], env))
        if k == "suffix":
            return pt.Suffix(self.expr(e[1], env), self.expr(e[2], env))
        if k == "wideratio":
            return pt.WideRatio([self.expr(x, env) for x in e[1]], [self.expr(x, env) for x in e[2]])
        if k == "call":
            return self.call(e, env)
        if k == "seqv":
            return pt.Seq(*[self.stmt(s, env) for s in e[1]], self.expr(e[2], env))
        raise ValueError(f"build: unknown expr {k}")

    def call(self, e, env):
        args = []
        for a in e[2]:
            if a[0] == "ref":
                args.append(env[a[1]])
            else:
                args.append(self.expr(a, env))
        return self.fns[e[1]](*args)

    def stmt(self, s, env):
        pt = self.pt
        k = s[0]
        if k == "store":
            return env[s[1]].store(self.expr(s[2], env))
        if k == "pop":
            return pt.Pop(self.expr(s[1], env))
        if k == "log":
            return pt.Log(self.expr(s[1], env))
        if k == "gput":
            return pt.App.globalPut(self.expr(s[1], env), self.expr(s[2], env))
        if k == "gdel":
            return pt.App.globalDel(self.expr(s[1], env))
        if k == "assert":
            cs = [self.expr(c, env) for c in s[1]]
            return pt.Assert(*cs, comment=s[2]) if s[2] is not None else pt.Assert(*cs)
        if k == "seq":
            return pt.Seq(*[self.stmt(x, env) for x in s[1]])
        if k == "ifs":
            if s[3] is None:
                return pt.If(self.expr(s[1], env)).Then(self.stmt(s[2], env))
            return pt.If(self.expr(s[1], env)).Then(self.stmt(s[2], env)).Else(self.stmt(s[3], env))
        if k == "conds":
            return pt.Cond(*[[self.expr(c, env), self.stmt(v, env)] for c, v in s[1]])
        if k == "while":
            return pt.While(self.expr(s[1], env)).Do(self.stmt(s[2], env))
        if k == "for":
            return pt.For(self.stmt(s[1], env), self.expr(s[2], env), self.stmt(s[3], env)).Do(self.stmt(s[4], env))
        if k == "break":
            return pt.Break()
        if k == "continue":
            return pt.Continue()
        if k == "return":
            return pt.Return(self.expr(s[1], env)) if s[1] is not None else pt.Return()
        if k == "approve":
            return pt.Approve()
        if k == "reject":
            return pt.Reject()
        if k == "calls":
            return self.call(s, env)
        if k == "comment":
            return pt.Comment(s[1], self.stmt(s[2], env))
        if k == "nonce":
            return pt.Nonce(s[1], s[2], self.stmt(s[3], env))
        # an expression in statement position is not allowed (type none required)
        raise ValueError(f"build: unknown stmt {k}")


def build(prog: Prog):
    return Builder(prog).build()


# ======================================================================= den =============================
class _Exit(Exception):
    def __init__(self, verdict):
        self.verdict = verdict


class _Ret(Exception):
    def __init__(self, value):
        self.value = value


class _Brk(Exception):
    pass


class _Cont(Exception):
    pass


class Den:
    def __init__(self, prog: Prog, ctx: avm.Ctx, version=10, fuel=20000):
        self.prog, self.m, self.version = prog, avm.Machine(ctx), version
        self.cells = {}
        self.ncell = 0
        self.fuel = fuel
        self.depth = 0
        self.genv = {}
        for name, ty, slot in prog.gvars:
            self.genv[name] = self.new_cell(0)

    def new_cell(self, init=0):
        self.ncell += 1
        self.cells[self.ncell] = init
        return self.ncell

    def tick(self):
        self.fuel -= 1
        if self.fuel <= 0:
            raise avm.Unsupported("den: fuel exhausted")

    def op(self, mnemonic, operands, imm=()):
        m = self.m
        base = len(m.stack)
        for o in operands:
            m.stack.append(o)
        try:
            m.apply(mnemonic, imm)
        except avm.Panic:
            del m.stack[base:]
            raise
        out = m.stack[base:]
        del m.stack[base:]
        return out

    def run(self):
        try:
            try:
                self.stmt(self.prog.main, dict(self.genv))
                raise avm.Unsupported("den: main fell through without approve/reject/return")
            except _Ret as r:
                v = r.value
                if not isinstance(v, int):
                    raise avm.Panic("return of non-uint64")
                verdict = "approve" if v != 0 else "reject"
            except _Exit as e:
                verdict = e.verdict
        except avm.Panic as p:
            self.m.res.verdict = "fail"
            self.m.res.detail = str(p)
            return self.m.res
        self.m.res.verdict = verdict
        return self.m.res

    def u(self, v):
        if not isinstance(v, int):
            raise avm.Panic("expected uint64")
        return v

    def expr(self, e, env):
        self.tick()
        k = e[0]
        if k == "int":
            return e[1]
        if k == "bytes":
            return bytes(e[1])
        if k == "str":
            return e[1].encode("utf-8")
        if k == "un":
            return self.op(UN[e[1]][1], [self.expr(e[2], env)])[0]
        if k == "bin":
            a = self.expr(e[2], env)
            b = self.expr(e[3], env)
            return self.op(BIN[e[1]][1], [a, b])[0]
        if k == "tern":
            a, b, c = self.expr(e[2], env), self.expr(e[3], env), self.expr(e[4], env)
            return self.op(TERN[e[1]][1], [a, b, c])[0]
        if k == "nary":
            vals = [self.expr(x, env) for x in e[2]]  # all operands evaluated, left to right
            acc = vals[0]
            for v in vals[1:]:
                acc = self.op(NARY[e[1]][1], [acc, v])[0]
            return acc
        if k == "ife":
            return self.expr(e[2], env) if self.u(self.expr(e[1], env)) != 0 else self.expr(e[3], env)
        if k == "conde":
            for c, v in e[1]:
                if self.u(self.expr(c, env)) != 0:
                    return self.expr(v, env)
            raise avm.Panic("Cond: no condition true")
        if k == "load":
            c = env[e[1]]
            if isinstance(c, tuple):  # by-value parameter
                return c[1]
            return self.cells[c]
        if k == "txn":
            return self.op("txn", [], [TXN_FIELDS[e[1]][1]])[0]
        if k == "txna":
            return self.op("txnas", [e[2]], ["ApplicationArgs"])[0]
        if k == "global":
            return self.op("global", [], [GLOBAL_FIELDS[e[1]][1]])[0]
        if k == "arg":
            return self.op("arg", [], [e[1]])[0]
        if k == "gget":
            return self.op("app_global_get", [self.expr(e[1], env)])[0]
        if k == "substring":
            s, a, b = self.expr(e[1], env), self.expr(e[2], env), self.expr(e[3], env)
            return self.op("substring3", [s, a, b])[0]
        if k == "extract":
            s, a, l = self.expr(e[1], env), self.expr(e[2], env), self.expr(e[3], env)
            return self.op("extract3", [s, a, l])[0]
        if k == "suffix":
            s, a = self.expr(e[1], env), self.expr(e[2], env)
            if not isinstance(s, bytes) or not isinstance(a, int):
                raise avm.Panic("suffix types")
            if a > len(s):
                raise avm.Panic("suffix start beyond end")
            return s[a:]
        if k == "wideratio":
            def running(fs):
                p = 1
                for f in fs:
                    v = self.u(self.expr(f, env))
                    p *= v
                    if p >= 2 ** 128:
                        raise avm.Panic("wideratio overflow")
                return p
            n = running(e[1])
            d = running(e[2])
            if d == 0:
                raise avm.Panic("wideratio div by zero")
            q = n // d
            if q >= 2 ** 64:
                raise avm.Panic("wideratio quotient too wide")
            return q
        if k == "call":
            return self.call(e, env)
        if k == "seqv":
            for s in e[1]:
                self.stmt(s, env)
            return self.expr(e[2], env)
        raise ValueError(f"den: unknown expr {k}")

    def call(self, e, env):
        sub: Sub = self.prog.subs[e[1]]
        new = dict(self.genv)
        # arguments are evaluated left to right in the caller's environment
        for (kind, pname, ty), a in zip(sub.params, e[2]):
            if kind == "ref":
                new[pname] = env[a[1]]
            else:
                new[pname] = ("val", self.expr(a, env))
        for ln, ty in sub.locals:
            new[ln] = self.new_cell(0)
        self.depth += 1
        if self.depth > 8:  # AVM call stack limit (callsub depth): the program fails
            self.depth -= 1
            raise avm.Panic("call depth")
        try:
            try:
                self.stmt(sub.body, new)
                rv = None
            except _Ret as r:
                rv = r.value
        finally:
            self.depth -= 1
        if sub.ret == "none":
            return None
        if rv is None:
            raise avm.Unsupported("den: value subroutine fell through")
        return rv

    def stmt(self, s, env):
        self.tick()
        k = s[0]
        if k == "store":
            v = self.expr(s[2], env)
            self.cells[env[s[1]]] = v
        elif k == "pop":
            self.expr(s[1], env)
        elif k == "log":
            self.op("log", [self.expr(s[1], env)])
        elif k == "gput":
            a = self.expr(s[1], env)
            b = self.expr(s[2], env)
            self.op("app_global_put", [a, b])
        elif k == "gdel":
            self.op("app_global_del", [self.expr(s[1], env)])
        elif k == "assert":
            for c in s[1]:
                if self.u(self.expr(c, env)) == 0:
                    raise avm.Panic("assert")
        elif k == "seq":
            for x in s[1]:
                self.stmt(x, env)
        elif k == "ifs":
            if self.u(self.expr(s[1], env)) != 0:
                self.stmt(s[2], env)
            elif s[3] is not None:
                self.stmt(s[3], env)
        elif k == "conds":
            for c, v in s[1]:
                if self.u(self.expr(c, env)) != 0:
                    self.stmt(v, env)
                    return
            raise avm.Panic("Cond: no condition true")
        elif k == "while":
            while self.u(self.expr(s[1], env)) != 0:
                try:
                    self.stmt(s[2], env)
                except _Brk:
                    break
                except _Cont:
                    continue
        elif k == "for":
            self.stmt(s[1], env)
            while self.u(self.expr(s[2], env)) != 0:
                try:
                    self.stmt(s[4], env)
                except _Brk:
                    break
                except _Cont:
                    pass
                self.stmt(s[3], env)
        elif k == "break":
            raise _Brk()
        elif k == "continue":
            raise _Cont()
        elif k == "return":
            raise _Ret(self.expr(s[1], env) if s[1] is not None else None)
        elif k == "approve":
            raise _Exit("approve")
        elif k == "reject":
            raise _Exit("reject")
        elif k == "calls":
            self.call(s, env)
        elif k == "comment":
            self.stmt(s[2], env)
        elif k == "nonce":
            self.stmt(s[3], env)
        else:
            raise ValueError(f"den: unknown stmt {k}")


def den(prog: Prog, ctx: avm.Ctx | None = None, version=10):
    d = Den(prog, ctx or avm.Ctx(mode=prog.mode), version)
    r = d.run()
    # final contents of the top-level variables (used for the user-numbered slots clause of C03 / C10)
    r.gvals = {name: d.cells[d.genv[name]] for name, _, _ in prog.gvars}
    return r
