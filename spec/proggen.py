"""Random / enumerated generators of program descriptions (spec.progsem.Prog) for the bounded stand-ins."""
from __future__ import annotations

import random

from .progsem import Prog, Sub, UN, BIN, TERN, NARY, TXN_FIELDS, GLOBAL_FIELDS

SMALL = [0, 1, 2, 3, 5, 7, 10, 255, 256, 65535, 2 ** 32, 2 ** 63, 2 ** 64 - 1]
BYTES = [b"", b"a", b"ab", b"hello", b"\x00", b"\xff\x00\x01", b"0123456789abcdef", bytes(range(32))]


class Gen:
    def __init__(self, seed, version=8, mode="Application", features=None):
        self.r = random.Random(seed)
        self.version = version
        self.mode = mode
        self.f = {"loops": True, "subs": True, "recursion": True, "bytes": True, "state": mode == "Application",
                  "log": mode == "Application" and version >= 5, "wide": version >= 5, "cond": True,
                  "comments": True, "reserved_slots": True, "refparams": True, "loopheavy": False}
        if features:
            self.f.update(features)
        self.subs: dict[str, Sub] = {}
        self.gvars = []
        self.loop_depth = 0
        self.uid = 0

    # ---------------- expressions ------------------------------------------------------------
    def ok(self, minv):
        return self.version >= minv

    def leaf(self, ty, scope):
        r = self.r
        vars_ = [n for n, t in scope["vars"].items() if t == ty]
        c = r.random()
        if vars_ and c < 0.45:
            return ("load", r.choice(vars_))
        if ty == "u":
            if c < 0.55 and self.mode == "Application":
                f = r.choice([k for k, v in TXN_FIELDS.items() if v[2] == "u"])
                return ("txn", f)
            if c < 0.6:
                f = r.choice([k for k, v in GLOBAL_FIELDS.items() if v[2] == "u"])
                return ("global", f)
            return ("int", r.choice(SMALL) if r.random() < 0.5 else r.randrange(0, 20))
        if c < 0.55 and self.mode == "Application":
            return ("txn", r.choice([k for k, v in TXN_FIELDS.items() if v[2] == "b"]))
        if c < 0.6 and self.mode == "Signature":
            return ("arg", r.randrange(0, 2))
        return ("bytes", r.choice(BYTES)) if r.random() < 0.7 else ("str", r.choice(["x", "hi there", "q\"uote", "sl\\ash", "né"]))

    def expr(self, ty, depth, scope):
        r = self.r
        if depth <= 0 or r.random() < 0.25:
            return self.leaf(ty, scope)
        c = r.random()
        want = "u" if ty == "u" else "b"
        if c < 0.30:
            cands = [k for k, v in BIN.items() if v[3] == want and self.ok(v[4]) and (self.f["bytes"] or "b" not in v[2])]
            if not cands:
                return self.leaf(ty, scope)
            k = r.choice(cands)
            t1, t2 = BIN[k][2]
            a, b = self.expr(t1, depth - 1, scope), self.expr(t2, depth - 1, scope)
            if k in ("div", "mod"):
                b = ("nary", "add", [b, ("int", 1)]) if r.random() < 0.8 else b
            if k in ("shl", "shr"):
                b = ("bin", "mod", b, ("int", 64))
            if k == "exp":
                a, b = ("bin", "mod", a, ("int", 7)), ("nary", "add", [("bin", "mod", b, ("int", 5)), ("int", 1)])
            if k == "minus" and r.random() < 0.7:
                a = ("nary", "add", [a, b]) if r.random() < 0.5 else a
            return ("bin", k, a, b)
        if c < 0.45:
            cands = [k for k, v in NARY.items() if v[3] == want]
            if not cands:
                return self.leaf(ty, scope)
            k = r.choice(cands)
            n = r.randrange(2, 5)
            return ("nary", k, [self.expr(NARY[k][2], depth - 1, scope) for _ in range(n)])
        if c < 0.57:
            cands = [k for k, v in UN.items() if v[3] == want and self.ok(v[4]) and (self.f["bytes"] or "b" not in v[2] + v[3])]
            if cands:
                k = r.choice(cands)
                a = self.expr(UN[k][2], depth - 1, scope)
                if k == "byteszero":
                    a = ("bin", "mod", a, ("int", 40))
                if k == "btoi":
                    a = ("un", "itob", self.expr("u", depth - 2, scope))
                return ("un", k, a)
        if c < 0.67:
            return ("ife", self.expr("u", depth - 1, scope), self.expr(ty, depth - 1, scope), self.expr(ty, depth - 1, scope))
        if c < 0.72 and self.f["cond"]:
            n = r.randrange(1, 4)
            arms = [(self.expr("u", depth - 1, scope), self.expr(ty, depth - 1, scope)) for _ in range(n)]
            if r.random() < 0.8:
                arms.append((("int", 1), self.expr(ty, depth - 1, scope)))
            return ("conde", arms)
        if c < 0.80 and ty == "b" and self.f["bytes"]:
            s = ("nary", "concat", [self.expr("b", depth - 1, scope), ("bytes", b"0123456789")])
            which = r.choice(["substring", "extract", "suffix"] if self.ok(5) else ["substring"])
            a = ("int", r.randrange(0, 6)) if r.random() < 0.7 else ("bin", "mod", self.expr("u", depth - 2, scope), ("int", 5))
            if which == "substring":
                b = ("int", a[1] + r.randrange(0, 5)) if a[0] == "int" else ("nary", "add", [a, ("int", r.randrange(0, 4))])
                return ("substring", s, a, b)
            if which == "extract":
                return ("extract", s, a, ("int", r.randrange(0, 5)))
            return ("suffix", s, a)
        if c < 0.84 and ty == "u" and self.f["wide"]:
            nn, nd = r.randrange(1, 4), r.randrange(1, 4)
            if nn == 1 and nd == 1:
                nn = 2
            return ("wideratio", [self.expr("u", depth - 2, scope) for _ in range(nn)],
                    [("nary", "add", [self.expr("u", 0, scope), ("int", 1)]) if r.random() < 0.8 else self.expr("u", 0, scope) for _ in range(nd)])
        if c < 0.95 and scope.get("callable"):
            cands = [s for s in scope["callable"] if self.subs[s].ret == ty]
            if cands:
                return self.call(r.choice(cands), depth, scope)
        if c < 0.98 and self.f["state"] and ty == "u":
            return ("gget", ("bytes", r.choice([b"k1", b"k2"])))
        return self.leaf(ty, scope)

    def call(self, name, depth, scope, stmt=False):
        sub = self.subs[name]
        args = []
        for kind, p, ty in sub.params:
            if kind == "ref":
                cands = [n for n, t in scope["vars"].items() if t == ty and n not in scope.get("params_v", ())]
                if not cands:
                    return self.leaf(sub.ret if sub.ret != "none" else "u", scope) if not stmt else ("pop", ("int", 0))
                args.append(("ref", self.r.choice(cands)))
            else:
                args.append(self.expr(ty, min(depth - 1, 1), scope))
        return ("calls" if stmt else "call", name, args)

    # ---------------- statements ----------------------------------------------------------------
    def stmt(self, depth, scope):
        r = self.r
        c = r.random()
        svars = [n for n in scope["vars"] if n not in scope.get("params_v", ()) and n not in scope.get("frozen", ())]
        if c < 0.30 and svars:
            v = r.choice(svars)
            return ("store", v, self.expr(scope["vars"][v], depth, scope))
        if c < 0.38:
            return ("pop", self.expr(r.choice("ub") if self.f["bytes"] else "u", depth, scope))
        if c < 0.46 and self.f["log"]:
            e = self.expr("b", depth, scope) if r.random() < 0.5 else ("un", "itob", self.expr("u", depth, scope))
            return ("log", e)
        if c < 0.52 and self.f["state"]:
            return ("gput", ("bytes", r.choice([b"k1", b"k2"])), self.expr("u", depth, scope))
        if c < 0.56 and self.ok(3):
            n = r.randrange(1, 3)
            conds = [("nary", "or", [self.expr("u", depth - 1, scope), ("int", 1)]) if r.random() < 0.85 else self.expr("u", depth - 1, scope)
                     for _ in range(n)]
            return ("assert", conds, r.choice([None, None, "chk", "a // b; int 0"]))
        if depth <= 0:
            return ("pop", self.leaf("u", scope))
        if self.f["loopheavy"] and self.f["loops"] and self.ok(4) and self.loop_depth < 2 and r.random() < 0.6:
            return self.loop(depth, scope)
        if c < 0.66:
            return ("ifs", self.expr("u", depth - 1, scope), self.block(depth - 1, scope),
                    self.block(depth - 1, scope) if r.random() < 0.5 else None)
        if c < 0.70 and self.f["cond"]:
            arms = [(self.expr("u", depth - 1, scope), self.block(depth - 1, scope)) for _ in range(r.randrange(1, 3))]
            arms.append((("int", 1), self.block(depth - 1, scope)))
            return ("conds", arms)
        if c < 0.84 and self.f["loops"] and self.ok(4) and self.loop_depth < 2:
            return self.loop(depth, scope)
        if c < 0.92 and scope.get("callable"):
            cands = [s for s in scope["callable"] if self.subs[s].ret == "none"]
            if cands:
                return self.call(r.choice(cands), depth, scope, stmt=True)
        if c < 0.95 and self.f["comments"]:
            return ("comment", r.choice(["note", "two\nlines", "int 1 // x", 'q"']), self.stmt(depth - 1, scope))
        if self.loop_depth > 0 and c < 0.98:
            return ("ifs", self.expr("u", depth - 1, scope), r.choice([("break",), ("continue",)]), None)
        return self.block(depth - 1, scope)

    def block(self, depth, scope):
        n = self.r.randrange(0, 3) if depth > 0 else self.r.randrange(0, 2)
        return ("seq", [self.stmt(depth, scope) for _ in range(n)])

    def fresh(self, prefix):
        self.uid += 1
        return f"{prefix}{self.uid}"

    def loop(self, depth, scope):
        r = self.r
        i = scope["counter_pool"].pop() if scope["counter_pool"] else None
        if i is None:
            return self.block(depth - 1, scope)
        k = r.randrange(0, 4)
        self.loop_depth += 1
        frozen = set(scope.get("frozen", ())) | {i}
        inner = dict(scope, frozen=frozen)
        body_stmts = [self.stmt(depth - 1, inner) for _ in range(r.randrange(0, 3))]
        if r.random() < 0.4:
            body_stmts.insert(r.randrange(0, len(body_stmts) + 1),
                              ("ifs", self.expr("u", depth - 1, inner), r.choice([("break",), ("continue",)]), None))
        self.loop_depth -= 1
        inc = ("store", i, ("nary", "add", [("load", i), ("int", 1)]))
        cond = ("bin", "lt", ("load", i), ("int", k))
        if r.random() < 0.5:
            if r.random() < (0.6 if self.f["loopheavy"] else 0.2):
                body_stmts = body_stmts + [r.choice([("break",), ("continue",)])]   # body ends with an unconditional exit
            out = ("for", ("store", i, ("int", 0)), cond, inc, ("seq", body_stmts))
        else:
            # while: increment first so that `continue` cannot loop forever
            out = ("seq", [("store", i, ("int", 0)), ("while", cond, ("seq", [inc] + body_stmts))])
        scope["counter_pool"].append(i)
        return out

    # ---------------- subroutines -----------------------------------------------------------------
    def make_sub(self, name, callable_):
        r = self.r
        nparams = r.randrange(0, 4)
        params = []
        for j in range(nparams):
            ty = "u" if (not self.f["bytes"] or r.random() < 0.7) else "b"
            kind = "ref" if (self.f["refparams"] and r.random() < 0.2) else "v"
            params.append((kind, f"{name}_p{j}", ty))
        ret = r.choice(["none", "u", "u", "b"] if self.f["bytes"] else ["none", "u", "u"])
        locs = [(f"{name}_l{j}", "u" if (not self.f["bytes"] or r.random() < 0.7) else "b") for j in range(r.randrange(0, 3))]
        cnt = [(f"{name}_c{j}", "u") for j in range(1)]
        sub = Sub(name, params, ret, locs + cnt, ("seq", []))
        self.subs[name] = sub
        vars_ = {p: ty for _, p, ty in params}
        vars_.update({n: t for n, t in locs})
        vars_.update({n: t for n, t, _ in self.gvars})
        scope = {"vars": vars_, "params_v": {p for k, p, _ in params if k == "v"}, "callable": list(callable_),
                 "counter_pool": [n for n, _ in cnt]}
        init = [("store", n, ("int", r.randrange(0, 9)) if t == "u" else ("bytes", r.choice(BYTES))) for n, t in locs]
        body = init + [self.stmt(2, scope) for _ in range(r.randrange(0, 3))]
        if ret != "none":
            body.append(("return", self.expr(ret, 2, scope)))
        elif r.random() < 0.25:
            # the routine ends in an If / ElseIf chain without a final Else whose branches all return: control can still fall off the end
            mk = lambda: ("seq", [self.stmt(1, scope), ("return", None)]) if r.random() < 0.5 else ("return", None)
            body.append(("ifs", self.expr("u", 1, scope), mk(), ("ifs", self.expr("u", 1, scope), mk(), None)))
        elif r.random() < 0.3:
            body.append(("return", None))
        sub.body = ("seq", body)
        return sub

    def make_recursive(self, name):
        """f(n, acc...) with locals live across the recursive call (exercises spilling)."""
        r = self.r
        extra = r.randrange(0, 3)
        params = [("v", f"{name}_n", "u")] + [("v", f"{name}_x{j}", "u") for j in range(extra)]
        ret = r.choice(["u", "u", "none"])
        nloc = r.randrange(1, 4)
        locs = [(f"{name}_l{j}", "u") for j in range(nloc)]
        n = ("load", f"{name}_n")
        scope = {"vars": {p: t for _, p, t in params} | dict(locs) | {g: t for g, t, _ in self.gvars},
                 "params_v": {p for _, p, _ in params}, "callable": [], "counter_pool": []}
        pscope = dict(scope, vars={p: t for _, p, t in params})
        init = [("store", ln, ("nary", "add", [n, ("int", j + 1), self.expr("u", 1, pscope)])) for j, (ln, _) in enumerate(locs)]
        rec_args = [("bin", "minus", n, ("int", 1))] + [self.expr("u", 1, scope) for _ in range(extra)]
        sub = Sub(name, params, ret, locs, ("seq", []))
        self.subs[name] = sub
        if ret == "u":
            combine = ("nary", "add", [("load", ln) for ln, _ in locs] + [("call", name, rec_args), n])
            if r.random() < 0.5:  # call nested inside an operand position
                combine = ("nary", "add", [("load", locs[0][0]), ("nary", "mul", [("int", 2), ("call", name, rec_args)])] +
                           [("load", ln) for ln, _ in locs[1:]])
            body = init + [("ifs", ("bin", "eq", n, ("int", 0)), ("return", ("int", r.randrange(0, 5))), None),
                           ("return", combine)]
        else:
            g = self.gvars[0][0] if self.gvars and self.gvars[0][1] == "u" else None
            after = [("store", g, ("nary", "add", [("load", g)] + [("load", ln) for ln, _ in locs]))] if g else \
                ([("log", ("un", "itob", ("nary", "add", [("load", ln) for ln, _ in locs] + [("int", 0)])))] if self.f["log"] else [])
            body = init + [("ifs", ("bin", "eq", n, ("int", 0)), ("return", None), None),
                           ("calls", name, rec_args)] + after
        sub.body = ("seq", body)
        return sub

    def make_forwarder(self, outer, inner):
        """outer(x by reference) forwards its reference to inner(y by reference), which updates the caller's variable."""
        r = self.r
        k = r.randrange(1, 4)
        self.subs[inner] = Sub(inner, [("ref", f"{inner}_y", "u"), ("v", f"{inner}_d", "u")], "none", [],
                               ("store", f"{inner}_y", ("nary", "add", [("load", f"{inner}_y"), ("load", f"{inner}_d")])))
        self.subs[outer] = Sub(outer, [("ref", f"{outer}_x", "u")], r.choice(["none", "u"]), [(f"{outer}_l", "u")], ("seq", []))
        body = [("store", f"{outer}_l", ("int", 3))] + [("calls", inner, [("ref", f"{outer}_x"), ("int", j + 1)]) for j in range(k)]
        if self.subs[outer].ret == "u":
            body.append(("return", ("nary", "add", [("load", f"{outer}_x"), ("load", f"{outer}_l")])))
        self.subs[outer].body = ("seq", body)

    def make_mutual(self, a, b):
        """a (returns none, locals) calls b (returns uint64) calls a: different arities and return types."""
        r = self.r
        pa = [("v", f"{a}_n", "u")]
        pb = [("v", f"{b}_n", "u"), ("v", f"{b}_y", "u")]
        la = [(f"{a}_l{j}", "u") for j in range(r.randrange(1, 3))]
        lb = [(f"{b}_l{j}", "u") for j in range(r.randrange(1, 3))]
        na, nb = ("load", f"{a}_n"), ("load", f"{b}_n")
        self.subs[a] = Sub(a, pa, "none", la, ("seq", []))
        self.subs[b] = Sub(b, pb, "u", lb, ("seq", []))
        outa = [("log", ("un", "itob", ("nary", "add", [("load", ln) for ln, _ in la] + [("int", 0)])))] if self.f["log"] else []
        self.subs[a].body = ("seq", [("store", ln, ("nary", "add", [na, ("int", 10 + j)])) for j, (ln, _) in enumerate(la)] + [
            ("ifs", ("bin", "eq", na, ("int", 0)), ("return", None), None),
            ("store", la[0][0], ("nary", "add", [("load", la[0][0]), ("call", b, [("bin", "minus", na, ("int", 1)), ("int", 3)])])),
        ] + outa)
        self.subs[b].body = ("seq", [("store", ln, ("nary", "add", [nb, ("load", f"{b}_y"), ("int", 20 + j)])) for j, (ln, _) in enumerate(lb)] + [
            ("ifs", ("bin", "eq", nb, ("int", 0)), ("return", ("int", 1)), None),
            ("calls", a, [("bin", "minus", nb, ("int", 1))]),
            ("return", ("nary", "add", [("load", ln) for ln, _ in lb] + [("int", 0)])),
        ])

    # ---------------- whole program ------------------------------------------------------------------
    def prog(self, size=3):
        r = self.r
        ng = r.randrange(0, 3)
        used_slots = set()
        for j in range(ng):
            slot = None
            if self.f["reserved_slots"] and r.random() < 0.3:
                slot = r.choice([0, 1, 5, 100, 255])
                if slot in used_slots:
                    slot = None
                else:
                    used_slots.add(slot)
            self.gvars.append((f"g{j}", "u" if (not self.f["bytes"] or r.random() < 0.7) else "b", slot))
        callable_ = []
        if self.f["subs"] and self.version >= 4:
            for j in range(r.randrange(0, 3)):
                name = f"s{j}"
                self.make_sub(name, callable_)
                callable_.append(name)
            if self.f["recursion"] and r.random() < 0.6:
                self.make_recursive("rec")
                callable_.append("rec")
            if self.f["recursion"] and r.random() < 0.3:
                self.make_mutual("ma", "mb")
                callable_ += ["ma", "mb"]
            if self.f["refparams"] and self.version >= 5 and r.random() < 0.35:
                self.make_forwarder("fwd", "bump")
        mvars = [(f"m{j}", "u" if (not self.f["bytes"] or r.random() < 0.7) else "b") for j in range(r.randrange(0, 3))]
        cnt = [("mc0", "u"), ("mc1", "u")]
        all_g = self.gvars + [(n, t, None) for n, t in mvars + cnt]
        vars_ = {n: t for n, t, _ in all_g}
        scope = {"vars": vars_, "params_v": set(), "callable": callable_, "counter_pool": [n for n, _ in cnt]}
        init = [("store", n, ("int", r.randrange(0, 9)) if t == "u" else ("bytes", r.choice(BYTES)))
                for n, t, _ in self.gvars + [(n, t, None) for n, t in mvars + cnt]]
        body = init + [self.stmt(size, scope) for _ in range(r.randrange(1, 4))]
        if "rec" in self.subs:
            sub = self.subs["rec"]
            args = [("int", r.randrange(0, 4))] + [self.expr("u", 1, scope) for _ in sub.params[1:]]
            body.append(("pop", ("call", "rec", args)) if sub.ret == "u" else ("calls", "rec", args))
            if sub.ret == "u" and self.f["log"]:
                body[-1] = ("log", ("un", "itob", ("call", "rec", args)))
        if "ma" in self.subs:
            body.append(("calls", "ma", [("int", r.randrange(0, 4))]))
        if "fwd" in self.subs:
            uvars = [n for n, t, _ in all_g if t == "u" and not n.startswith("mc")]
            if uvars:
                x = r.choice(uvars)
                body.append(("calls", "fwd", [("ref", x)]) if self.subs["fwd"].ret == "none" else ("pop", ("call", "fwd", [("ref", x)])))
        if self.f["log"]:
            for n, t, _ in all_g[:4]:
                body.append(("log", ("load", n) if t == "b" else ("un", "itob", ("load", n))))
        body.append(r.choice([("approve",), ("return", self.expr("u", 1, scope)), ("return", ("int", 1))]))
        mainvars = [(n, t, None) for n, t in mvars + cnt]
        return Prog(("seq", body), dict(self.subs), self.gvars + mainvars, self.mode)


def gen_prog(seed, version=8, mode="Application", size=3, features=None) -> Prog:
    return Gen(seed, version, mode, features).prog(size)
