/-
Side lemma for contracts/c12_constants.py (summary S4 of the `byteBlock` comprehension):
filtering a list that is sorted in non-increasing order of a key by "key > t" keeps exactly a prefix of the list
(the takeWhile of the same predicate).  Hence the i-th kept element is the i-th element of the sorted list, and every
element behind the prefix fails the predicate.
-/
theorem filter_eq_takeWhile_of_sorted {α : Type} (f : α → Nat) (t : Nat) :
    ∀ (l : List α), l.Pairwise (fun a b => f a ≥ f b) →
      l.filter (fun a => decide (f a > t)) = l.takeWhile (fun a => decide (f a > t))
  | [], _ => rfl
  | a :: l, h => by
    have hl : l.Pairwise (fun a b => f a ≥ f b) := (List.pairwise_cons.mp h).2
    have ha : ∀ b ∈ l, f a ≥ f b := (List.pairwise_cons.mp h).1
    by_cases hc : f a > t
    · simp [List.filter, List.takeWhile, hc, filter_eq_takeWhile_of_sorted f t l hl]
    · have : l.filter (fun a => decide (f a > t)) = [] := by
        apply List.filter_eq_nil_iff.mpr
        intro b hb
        have := ha b hb
        simp
        omega
      simp [List.filter, List.takeWhile, hc, this]
