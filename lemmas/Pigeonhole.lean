import Mathlib.Data.Finset.Card
import Mathlib.Data.Finset.Image

/-
Side lemma for contracts/c10_assign.py (bound `number < 256`):
if every index below m is the number of some element of T other than `cur` (and `cur` is in T), then m ≤ |T| - 1.
Used with T = allSlots, num = the slot numbering so far, cur = the automatic slot about to be numbered, m = the scan position.
-/
open Finset in
theorem scan_position_lt_card {α : Type} [DecidableEq α] (T : Finset α) (cur : α) (num : α → ℕ) (m : ℕ)
    (hcur : cur ∈ T)
    (h : ∀ x, x < m → ∃ a ∈ T, a ≠ cur ∧ num a = x) :
    m + 1 ≤ T.card := by
  have hsub : Finset.range m ⊆ (T.erase cur).image num := by
    intro x hx
    rcases h x (Finset.mem_range.mp hx) with ⟨a, haT, hne, hnum⟩
    exact Finset.mem_image.mpr ⟨a, Finset.mem_erase.mpr ⟨hne, haT⟩, hnum⟩
  have h1 : m ≤ ((T.erase cur).image num).card := by
    simpa using Finset.card_le_card hsub
  have h2 : ((T.erase cur).image num).card ≤ (T.erase cur).card := Finset.card_image_le
  have h3 : (T.erase cur).card = T.card - 1 := Finset.card_erase_of_mem hcur
  have h4 : 0 < T.card := Finset.card_pos.mpr ⟨cur, hcur⟩
  omega
